"""
VLoop: a controlled asyncio event loop with a virtual clock.

The loop is a real ``asyncio.BaseEventLoop`` (so stock Task/Future/Queue/Condition/timeouts
behave exactly as in production), but nothing runs unless the harness says so:

* ``step()`` runs exactly one handle from the head of ``_ready`` (FIFO is never reordered);
* ``advance()`` moves the virtual clock to the next timer deadline and releases the due timers;
* tasks hash by creation order (kopf iterates *sets* of tasks);
* every handle carries the ``OPID`` contextvar of the operator that created it, so a whole
  operator can be "kill -9"-ed by dropping its handles;
* a wall-clock watchdog turns a coroutine that spins without yielding into a reported *stall*.
"""
from __future__ import annotations

import asyncio
import contextvars
import gc
import heapq
import signal
import sys
from asyncio import events
from typing import Any

OPID: contextvars.ContextVar[str | None] = contextvars.ContextVar('kv_opid', default=None)


class Stall(KeyboardInterrupt):
    """Raised by the watchdog inside a step that does not return (a busy loop without awaits).

    A KeyboardInterrupt subclass: ``Task.__step`` and ``Handle._run`` re-raise it, so that
    it propagates to the driver instead of being stored as the task's result.
    """


class HarnessError(Exception):
    """A failure of the harness itself (never a property violation)."""


class VTask(asyncio.Task):  # type: ignore[type-arg]
    def __init__(self, coro: Any, *, loop: "VLoop", seq: int, **kw: Any) -> None:
        self._kv_seq = seq  # must exist before the base class registers the task in a WeakSet
        super().__init__(coro, loop=loop, **kw)

    def __hash__(self) -> int:
        return self._kv_seq

    def __eq__(self, other: object) -> bool:
        return self is other


class VLoop(asyncio.BaseEventLoop):

    STALL_SECONDS = 3.0

    def __init__(self, start: float = 0.0) -> None:
        super().__init__()
        self._vtime = float(start)
        self._clock_resolution = 0.0
        self._task_seq = 0
        self.dead_ops: set[str] = set()
        self.kept: list[VTask] = []
        self.steps = 0
        self.steps_this_instant = 0
        self.stall: dict[str, Any] | None = None
        self.diagnostics: list[str] = []
        self.set_task_factory(self._factory)  # type: ignore[arg-type]
        self.set_exception_handler(self._on_exception)

    # -- asyncio plumbing -------------------------------------------------------------------
    def time(self) -> float:
        return self._vtime

    def _process_events(self, event_list: Any) -> None:  # no selector
        pass

    def _write_to_self(self) -> None:  # call_soon_threadsafe: nothing to wake up
        pass

    def run_in_executor(self, executor: Any, func: Any, *args: Any) -> Any:  # type: ignore[override]
        """Synchronous handlers "run in a thread": here, deterministically, a thread is a future that cannot be cancelled
        and completes after the virtual duration the function declares (`__kv_duration__`, found through the partials kopf
        wraps it in). Its body runs, in one go, at the instant of completion; `on_sync_start` lets the harness log the start."""
        fut = self.create_future()
        base = func
        keywords: dict[str, Any] = {}
        for _ in range(6):
            if hasattr(base, '__kv_duration__'):
                break
            inner = getattr(base, 'args', ())
            if getattr(base, 'func', None) is not None and inner and callable(inner[0]) and getattr(base.func, '__name__', '') == 'run':
                base = inner[0]          # partial(context.run, fn)
            elif getattr(base, 'func', None) is not None:
                keywords = dict(getattr(base, 'keywords', None) or {})   # partial(fn, **kwargs): what the handler is called with
                base = base.func
            else:
                break
        duration = float(getattr(base, '__kv_duration__', 0.0) or 0.0)
        hook = getattr(base, '__kv_on_start__', None)
        if hook is not None:
            hook(**keywords)

        def complete() -> None:
            # As with a real executor: cancelling the asyncio future does not stop the thread - its body runs to the end anyway
            # (the side effects happen), only the result has nowhere to go any more.
            try:
                res = func(*args)
            except BaseException as e:     # noqa: the "thread" ended with an exception
                if isinstance(e, (KeyboardInterrupt, SystemExit)):
                    raise
                if not fut.done():
                    fut.set_exception(e)
                return
            if not fut.done():
                fut.set_result(res)
        self.call_later(duration, complete)
        return fut

    def _factory(self, loop: Any, coro: Any, **kw: Any) -> VTask:
        seq = self._task_seq
        self._task_seq += 1
        task = VTask(coro, loop=self, seq=seq, **kw)
        task.set_name(f'vt{seq}')
        self.kept.append(task)
        return task

    def _on_exception(self, loop: Any, context: dict[str, Any]) -> None:
        msg = context.get('message', '')
        exc = context.get('exception')
        self.diagnostics.append(f'{msg}: {exc!r}')

    # -- installation -------------------------------------------------------------------------
    def install(self) -> None:
        events._set_running_loop(self)
        self._thread_id = 1  # type: ignore[assignment]  # makes is_running() true

    def uninstall(self) -> None:
        self._thread_id = None
        events._set_running_loop(None)

    # -- inspection ---------------------------------------------------------------------------
    def _alive(self, handle: Any) -> bool:
        if handle._cancelled:
            return False
        if self.dead_ops:
            ctx = handle._context
            if ctx is not None and ctx.get(OPID) in self.dead_ops:
                return False
        return True

    def has_ready(self) -> bool:
        ready = self._ready
        while ready and not self._alive(ready[0]):
            ready.popleft()
        return bool(ready)

    def next_deadline(self) -> float | None:
        sched = self._scheduled
        while sched and not self._alive(sched[0]):
            handle = heapq.heappop(sched)
            if handle._cancelled:
                self._timer_cancelled_count -= 1
            handle._scheduled = False
        return sched[0]._when if sched else None

    # -- driving ------------------------------------------------------------------------------
    def step(self) -> None:
        """Run exactly one ready handle."""
        if not self.has_ready():
            raise HarnessError("step() with nothing ready")
        handle = self._ready.popleft()
        self.steps += 1
        self.steps_this_instant += 1
        self._current_handle = handle
        try:
            handle._run()
        finally:
            self._current_handle = None
        handle = None

    def advance(self, until: float | None = None) -> bool:
        """Jump to the next timer deadline (not beyond `until`); release all due timers."""
        when = self.next_deadline()
        if when is None or (until is not None and when > until):
            if until is not None and until > self._vtime:
                self._vtime = until
                self.steps_this_instant = 0
            return False
        if when > self._vtime:
            self._vtime = when
            self.steps_this_instant = 0
        self.release_due()
        return True

    def release_due(self) -> None:
        sched = self._scheduled
        while sched:
            handle = sched[0]
            if not self._alive(handle):
                heapq.heappop(sched)
                if handle._cancelled:
                    self._timer_cancelled_count -= 1
                handle._scheduled = False
                continue
            if handle._when > self._vtime:
                break
            heapq.heappop(sched)
            handle._scheduled = False
            self._ready.append(handle)

    def jump_to(self, t: float) -> None:
        """Move the clock to `t` (no timer may be skipped)."""
        when = self.next_deadline()
        if when is not None and when < t:
            raise HarnessError(f"jump_to({t}) would skip a timer at {when}")
        if t > self._vtime:
            self._vtime = t
            self.steps_this_instant = 0
        self.release_due()

    # -- operators ----------------------------------------------------------------------------
    def kill_operator(self, opid: str) -> None:
        """kill -9: nothing that belongs to this operator ever runs again."""
        self.dead_ops.add(opid)

    # -- teardown -----------------------------------------------------------------------------
    def teardown(self, budget: int = 20000) -> None:
        """Deterministically finish everything that belongs to this loop (see DESIGN.md §3)."""
        self.dead_ops.clear()  # let the killed operators' tasks be cancelled and finalised too
        tasks = [t for t in self.kept if not t.done()]
        for t in tasks:
            t.cancel()
        n = 0
        rounds = 0
        while n < budget:
            if self.has_ready():
                try:
                    self.step()
                except Stall:
                    break
                n += 1
                continue
            pending = [t for t in self.kept if not t.done()]
            if not pending:
                break
            if self.next_deadline() is not None and rounds < 200:
                self.advance()
                rounds += 1
                continue
            # Stuck tasks (waiting on futures nobody will resolve): cancel again, then give up.
            rounds += 1
            if rounds > 3:
                break
            for t in pending:
                t.cancel()
        for t in self.kept:
            if not t.done():
                coro = t.get_coro()
                try:
                    coro.close()  # type: ignore[union-attr]
                except BaseException:
                    pass
        self._ready.clear()
        for h in self._scheduled:
            h._scheduled = False
        self._scheduled.clear()
        self._timer_cancelled_count = 0
        self.kept.clear()


_OLD_HOOK = None


def mute_unraisable() -> None:
    global _OLD_HOOK
    if _OLD_HOOK is None:
        _OLD_HOOK = sys.unraisablehook
        sys.unraisablehook = lambda *_: None


def collect_garbage(full: bool = False) -> None:
    mute_unraisable()
    gc.collect() if full else gc.collect(1)


class Watchdog:
    """SIGALRM-based wall-clock guard around one execution."""

    def __init__(self, loop: VLoop, seconds: float) -> None:
        self.loop = loop
        self.seconds = seconds
        self._old: Any = None

    def _handler(self, signum: int, frame: Any) -> None:
        where = []
        f = frame
        while f is not None and len(where) < 60:
            where.append(f'{f.f_code.co_filename}:{f.f_lineno}:{f.f_code.co_name}')
            f = f.f_back
        handle = getattr(self.loop, '_current_handle', None)
        self.loop.stall = {
            'step': self.loop.steps,
            'vtime': self.loop.time(),
            'handle': repr(handle)[:200],
            'stack': where,
        }
        raise Stall()

    def __enter__(self) -> "Watchdog":
        self._old = signal.signal(signal.SIGALRM, self._handler)
        signal.setitimer(signal.ITIMER_REAL, self.seconds)
        return self

    def __exit__(self, *exc: Any) -> None:
        signal.setitimer(signal.ITIMER_REAL, 0)
        signal.signal(signal.SIGALRM, self._old)

    def rearm(self) -> None:
        signal.setitimer(signal.ITIMER_REAL, self.seconds)
