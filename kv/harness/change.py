"""
The closed-loop object scenario (scope S2) shared by C02/C03/C05/C06/C07/C14: the real
watcher + processing + patching for one resource kind, scripted handlers, a scripted user,
restarts and kills; plus the independent decoders and monitors the oracles are built from.
"""
from __future__ import annotations

import json
from typing import Any, Callable, Iterable

import kopf
from kopf._core.actions import lifecycles

from kv.explorer import Env, Scenario, UserAction, Violation
from kv.harness.op import (ARB, OK, PERM, Outcome, Pipeline, essence_of, make_settings, scripted, temp)
from kv.world import KEX, KEX_SUB, Kind, Request

PREFIX = 'kopf.zalando.org'
FINALIZER = 'kopf.zalando.org/KopfFinalizerMarker'
LAST_HANDLED = f'{PREFIX}/last-handled-configuration'
TOUCH = f'{PREFIX}/touch-dummy'

LIFECYCLES = {'asap': lifecycles.asap, 'one_by_one': lifecycles.one_by_one, 'all_at_once': lifecycles.all_at_once}


def parse_script(spec: Iterable[Any]) -> list[Outcome]:
    """Outcome scripts. Grammar per item: <kind>[<delay>][~<sleep>] with kind in ok|temp|perm|arb
    (temp without a number = delay 3, tempN = delay None), or ok+status<v> / ok+label<v> (foreign edit
    while running), ok+sleep<d> (legacy spelling of ok~<d>)."""
    out = []
    for s in spec:
        if isinstance(s, Outcome):
            out.append(s)
            continue
        if s.startswith('ok+status'):
            out.append(Outcome('ok', edit={'status': {'foreign': s[9:] or 'x'}}))
            continue
        if s.startswith('ok+spec'):      # an ESSENTIAL foreign edit while the handler runs (somebody edits the spec meanwhile)
            out.append(Outcome('ok', edit={'spec': {'x': int(s[7:] or 9)}}))
            continue
        if s.startswith('ok+label'):
            out.append(Outcome('ok', edit={'metadata': {'labels': {'foreign': s[8:] or 'x'}}}))
            continue
        if s.startswith('ok+note'):      # ... a note that follows what OTHERS wrote into the status: one more own write per foreign status edit
            out.append(Outcome('ok', patch={'status': {'noted': '$foreign'}}))
            continue
        if s.startswith('ok+uid'):       # the handler notes in the status WHICH object (uid) it was invoked for
            out.append(Outcome('ok', patch={'status': {'by': '$uid'}}))
            continue
        if s.startswith('ok+seen'):      # the handler leaves a note in the status through its patch kwarg (idempotent)
            out.append(Outcome('ok', patch={'status': {'seen': s[7:] or 'x'}}))
            continue
        if s.startswith('ok+fin'):
            out.append(Outcome('ok', addfin=s[6:] or 'user/fin'))
            continue
        if s.startswith('ok+sleep'):
            out.append(Outcome('ok', sleep=float(s[8:])))
            continue
        head, _, sl = s.partition('~')
        sleep = float(sl) if sl else 0.0
        if head == 'ok+stamp':     # the invocation's number as a field + a counter bump as a transformation, both through `patch`
            out.append(Outcome('ok', sleep=sleep, stamp=True))
            continue
        if head == 'ok':
            out.append(Outcome('ok', sleep=sleep))
        elif head == 'perm':
            out.append(Outcome('perm', sleep=sleep))
        elif head == 'arb':
            out.append(Outcome('arb', sleep=sleep))
        elif head.startswith('temp'):
            d = head[4:]
            delay = None if d == 'N' else (float(d) if d else 3.0)
            out.append(Outcome('temp', delay=delay, sleep=sleep))
        else:
            raise ValueError(s)
    return out


# ---- independent readers of what kopf persists on an object -------------------------------------
DRS = '-ofDRS'     # suffix of kopf's annotation names on ReplicaSets owned by Deployments

def progress_records(obj: dict | None, ids: Iterable[str]) -> dict[str, dict]:
    """Progress records of the given handler ids as persisted on `obj` (annotations or status)."""
    out: dict[str, dict] = {}
    if not obj:
        return out
    anns = (obj.get('metadata') or {}).get('annotations') or {}
    stat = ((obj.get('status') or {}).get('kopf') or {}).get('progress') or {}
    for hid in ids:
        key = f"{PREFIX}/{hid.replace('/', '.')}"
        if key not in anns and key + DRS in anns:
            key = key + DRS      # a ReplicaSet owned by a Deployment (docs/continuity.rst: the records are kept apart from the Deployment's)
        if key in anns:
            try:
                out[hid] = json.loads(anns[key])
            except Exception:
                out[hid] = {'corrupt': anns[key]}
        elif hid in stat and isinstance(stat[hid], dict):
            out[hid] = stat[hid]
    return out


def any_progress_keys(obj: dict | None) -> list[str]:
    """All kopf progress-looking annotation keys (everything under the prefix except the known non-progress ones)."""
    if not obj:
        return []
    anns = (obj.get('metadata') or {}).get('annotations') or {}
    keys = [k for k in anns if k.startswith(PREFIX + '/') and k not in (LAST_HANDLED, TOUCH, LAST_HANDLED + DRS, TOUCH + DRS)
            and not k.endswith('/kopf-managed')]
    stat = ((obj.get('status') or {}).get('kopf') or {}).get('progress') or {}
    return sorted(keys) + sorted(f'status:{k}' for k in stat)


def finished(rec: dict | None) -> bool:
    return bool(rec and (rec.get('success') or rec.get('failure')))


def last_handled(obj: dict | None) -> dict | None:
    if not obj:
        return None
    anns = (obj.get('metadata') or {}).get('annotations') or {}
    raw = anns.get(LAST_HANDLED)
    if raw is None:
        raw = anns.get(LAST_HANDLED + DRS)
    if raw is None:
        raw = ((obj.get('status') or {}).get('kopf') or {}).get('last-handled-configuration')
    return json.loads(raw) if raw is not None else None


def essence_ref(obj: dict) -> dict:
    """The essential part of a body, in the shape kopf stores as last-handled: the body minus
    apiVersion/kind/status, minus all metadata except labels and foreign annotations."""
    out = {k: v for k, v in obj.items() if k not in ('apiVersion', 'kind', 'metadata', 'status')}
    meta = obj.get('metadata') or {}
    m: dict[str, Any] = {}
    if meta.get('labels'):
        m['labels'] = dict(meta['labels'])
    anns = {k: v for k, v in (meta.get('annotations') or {}).items()
            if not k.startswith(PREFIX + '/') and k != 'kubectl.kubernetes.io/last-applied-configuration'}
    if anns:
        m['annotations'] = anns
    if m:
        out['metadata'] = m
    return out


def has_finalizer(obj: dict | None) -> bool:
    return bool(obj) and FINALIZER in ((obj.get('metadata') or {}).get('finalizers') or [])


# ---- the scenario ----------------------------------------------------------------------------------

class ChangeScenario(Scenario):
    """
    params:
      handlers:   [{'id', 'on': create|update|delete|resume|event|field..., 'script': [...], + decorator kwargs}]
      subs:       {parent_id: [{'id', 'script'}]}   (sub-handlers registered inside the parent)
      lifecycle:  asap|one_by_one|all_at_once
      user:       [(at, action, *args)]
      settings:   {dotted__path: value}
      kills:      bool - `kill:<op>` is an environment action wherever the operator waits for the API
      sub:        bool - the resource has a status subresource
      storage:    'annotations' | 'status'
      pre:        [(name, spec)] objects that exist before the first operator starts
    """
    name = 'change'
    horizon = 60.0
    kind: Kind = KEX

    def __init__(self, **params: Any) -> None:
        super().__init__(**params)
        self.kind = KEX_SUB if params.get('sub') else KEX
        if params.get('rs'):
            # a ReplicaSet owned by a Deployment: kopf keeps its records under differently named annotations there
            from kv.world import REPLICASETS
            self.kind = REPLICASETS
        self.kinds = [self.kind]
        self.horizon = params.get('horizon', self.horizon)
        self.grid = params.get('grid')
        self.coincide = params.get('coincide', False)

    # -- building blocks --
    def build_registry(self, env: Env) -> kopf.OperatorRegistry:
        reg = kopf.OperatorRegistry()
        subs = self.params.get('subs', {})
        shared: dict[str, dict[str, Any]] = {}      # group -> {handler id: its own scripted function}
        dispatchers: dict[str, Any] = {}
        for h in self.params['handlers']:
            h = dict(h)
            hid, on = h.pop('id'), h.pop('on')
            script = parse_script(h.pop('script', ['ok']))
            group = h.pop('shared', None)
            if group is not None:
                # ONE function object registered under several ids (e.g. @on.create + @on.update stacked): told apart by `param`
                shared.setdefault(group, {})[hid] = scripted(env, hid, script)
                if group not in dispatchers:
                    def make(g: str) -> Any:
                        async def dispatch(**kw: Any) -> Any:
                            return await shared[g][kw['param']](**kw)
                        dispatch.__name__ = dispatch.__qualname__ = f'shared_{g}'
                        return dispatch
                    dispatchers[group] = make(group)
                getattr(kopf.on, on)(self.kind.plural, id=hid, registry=reg, param=hid, **h)(dispatchers[group])
                continue
            if on == 'daemon' and h.get('body') == 'sync':
                from kv.harness.op import daemon_sync_fn
                h.pop('body')
                fn = daemon_sync_fn(env, hid, duration=h.pop('duration', 8.0))
            elif on == 'daemon' and h.pop('body', 'reaction') == 'reaction':
                from kv.harness.op import daemon_fn
                fn = daemon_fn(env, hid, reaction=h.pop('reaction', 'obeys'), lifetime=h.pop('lifetime', None),
                               exit_delay=h.pop('exit_delay', 0.0))
            else:
                fn = scripted(env, hid, script)
            if hid in subs:
                fn = self._with_subs(env, hid, fn, subs[hid])
            deco = getattr(kopf.on, on) if on not in ('daemon', 'timer') else getattr(kopf, on)
            for k in ('errors',):
                if isinstance(h.get(k), str):
                    h[k] = getattr(kopf.ErrorsMode, h[k])
            if isinstance(h.get('when'), str) and h['when'].startswith('status.foreign!='):
                # a `when=` callback that looks at a status field (edits of which are not essential changes): the filter can flip in mid-cycle
                h['when'] = (lambda bad: (lambda status, **_: status.get('foreign') != bad))(int(h['when'].split('!=')[1]))
            deco(self.kind.plural, id=hid, registry=reg, **h)(fn)
        # handlers of ANOTHER kind served by the same operator (never triggered here: only their declarations are in the registry)
        for h in self.params.get('other_kind_handlers', []):
            h = dict(h)
            hid, on = h.pop('id'), h.pop('on')
            getattr(kopf.on, on)('kopfwidgets', id=hid, registry=reg, **h)(scripted(env, hid, parse_script(['ok'])))
        return reg

    def _with_subs(self, env: Env, hid: str, fn: Any, subs: list[dict]) -> Any:
        async def parent(**kw: Any) -> Any:
            items = (kw.get('spec') or {}).get('items') or []
            for s in subs:
                if 'when_item' in s and s['when_item'] not in items:
                    continue    # one sub-handler per item of a list in the spec: the set of sub-handlers follows the object
                sfn = scripted(env, f"{hid}/{s['id']}", parse_script(s.get('script', ['ok'])))
                if s.get('subs'):      # sub-handlers nest to any depth
                    sfn = self._with_subs(env, f"{hid}/{s['id']}", sfn, s['subs'])
                opts = {k: v for k, v in s.items() if k not in ('id', 'script', 'subs', 'when_item')}
                if isinstance(opts.get('errors'), str):
                    opts['errors'] = getattr(kopf.ErrorsMode, opts['errors'])
                # criteria of sub-handlers, spelled JSON-ably: 'ABSENT' / 'PRESENT' markers, when='true' / 'false'
                for crit in ('labels', 'annotations'):
                    if isinstance(opts.get(crit), dict):
                        opts[crit] = {k2: {'ABSENT': kopf.ABSENT, 'PRESENT': kopf.PRESENT}.get(v2, v2) if isinstance(v2, str) else v2 for k2, v2 in opts[crit].items()}
                if isinstance(opts.get('when'), str):
                    opts['when'] = (lambda verdict: (lambda **_: verdict))(opts['when'] == 'true')
                kopf.subhandler(id=s['id'], **opts)(sfn)
            if hid in self.params.get('execute_first', []):
                # the parent runs its sub-handlers explicitly and goes on afterwards (its own outcome comes after theirs)
                await kopf.execute()
            return await fn(**kw)
        parent.__name__ = parent.__qualname__ = hid
        return parent

    def build_settings(self) -> Any:
        kw = dict(self.params.get('settings', {}))
        s = make_settings(**kw)
        if self.params.get('storage') == 'status':
            s.persistence.progress_storage = kopf.StatusProgressStorage()
            s.persistence.diffbase_storage = kopf.StatusDiffBaseStorage()
        elif str(self.params.get('storage', '')).startswith('multi'):
            # the documented transitional configuration: every record kept in the annotations AND in the status stanza
            prog = [kopf.AnnotationsProgressStorage(), kopf.StatusProgressStorage()]
            base = [kopf.AnnotationsDiffBaseStorage(), kopf.StatusDiffBaseStorage()]
            if self.params['storage'] == 'multi-sa':
                prog.reverse(); base.reverse()
            s.persistence.progress_storage = kopf.MultiProgressStorage(prog)
            s.persistence.diffbase_storage = kopf.MultiDiffBaseStorage(base)
        return s

    def start_operator(self, env: Env) -> Pipeline:
        n = env.count('incarnation')
        opid = f'A{n}'
        p = Pipeline(env, opid, self.build_registry(env), self.build_settings(), kind=self.kind,
                     lifecycle=LIFECYCLES[self.params.get('lifecycle', 'asap')])
        env.memo['pipeline'] = p
        env.memo.setdefault('incarnations', []).append((env.now, opid))
        p.start()
        pending = env.memo.pop('admit_on_start', None)
        if pending is not None:
            self._action('admit', [pending])(env)
        return p

    def setup(self, env: Env) -> None:
        for name, spec in self.params.get('pre', []):
            env.world.create(self.kind, 'ns', name, {'spec': spec} if spec is not None else {})
        if self.params.get('autostart', True):
            self.start_operator(env)

    # -- the user --
    def script(self, env: Env) -> list[UserAction]:
        out = []
        for item in self.params.get('user', []):
            at, action, *args = item
            out.append(UserAction(float(at), f"{action}{''.join('-' + str(a) for a in args)}",
                                  self._action(action, args)))
        return out

    def _action(self, action: str, args: list[Any]) -> Callable[[Env], None]:
        K = self.kind

        def do(env: Env) -> None:
            w = env.world
            if action == 'create':
                body: dict[str, Any] = {'spec': dict(args[1]) if len(args) > 1 else {'x': 1}}
                if self.params.get('rs'):
                    body['metadata'] = {'ownerReferences': [{'apiVersion': 'apps/v1', 'kind': 'Deployment', 'name': 'd', 'uid': 'dep-1', 'controller': True}]}
                w.create(K, 'ns', args[0], body)
            elif action == 'createl':
                w.create(K, 'ns', args[0], {'spec': {'x': 1}, 'metadata': {'labels': {args[1]: args[2]}}})
            elif action == 'createhandled':
                # an object that arrives already carrying a last-handled state equal to its essence (restored from a backup, copied with
                # its annotations, handled by an earlier incarnation): nothing to do for it - and no first sight through a listing
                spec = {'x': 1}
                ess = json.dumps({'spec': spec}, separators=(',', ':')) + '\n'
                w.create(K, 'ns', args[0], {'spec': spec, 'metadata': {'annotations': {LAST_HANDLED: ess}}})
            elif action == 'createbare':
                w.create(K, 'ns', args[0], {})   # no spec, no labels: an empty essence
            elif action == 'unlabel':
                w.merge(K, 'ns', args[0], {'metadata': {'labels': {args[1]: None}}})
            elif action == 'spec':
                w.merge(K, 'ns', args[0], {'spec': {'x': args[1]}})
            elif action == 'label':
                w.merge(K, 'ns', args[0], {'metadata': {'labels': {args[1]: args[2]}}})
            elif action == 'append':      # a list in the spec grows at its tail
                w.edit(K, 'ns', args[0], lambda o: o.setdefault('spec', {}).setdefault('items', []).append(len(o['spec']['items']) + 1))
            elif action == 'truncate':    # ... or loses its last item (an empty list stays: a no-op write)
                def _truncate(o: dict) -> None:
                    items = o.setdefault('spec', {}).setdefault('items', [0])
                    if items:
                        items.pop()
                w.edit(K, 'ns', args[0], _truncate)
            elif action == 'status':
                w.merge(K, 'ns', args[0], {'status': {'foreign': args[1]}})
            elif action == 'statusset':   # any key of the status stanza, any JSON value (false, 0, '' included)
                w.merge(K, 'ns', args[0], {'status': {args[1]: args[2]}})
            elif action == 'annotate':
                w.merge(K, 'ns', args[0], {'metadata': {'annotations': {args[1]: args[2]}}})
            elif action == 'delete':
                w.delete(K, 'ns', args[0])
            elif action == 'labeldelete':     # kubectl label ... && kubectl delete ...: two writes back to back
                w.merge(K, 'ns', args[0], {'metadata': {'labels': {args[1]: args[2]}}})
                w.delete(K, 'ns', args[0])
            elif action == 'recreate':
                w.delete(K, 'ns', args[0])
                if w.get(K, 'ns', args[0]) is None:
                    w.create(K, 'ns', args[0], {'spec': {'x': args[1] if len(args) > 1 else 1}})
            elif action == 'addfin':
                w.edit(K, 'ns', args[0], lambda o: o['metadata'].setdefault('finalizers', []).append(args[1]))
            elif action == 'addfin0':
                w.edit(K, 'ns', args[0], lambda o: o['metadata'].setdefault('finalizers', []).insert(0, args[1]))
            elif action == 'delfin':
                w.edit(K, 'ns', args[0], lambda o: o['metadata'].__setitem__(
                    'finalizers', [f for f in o['metadata'].get('finalizers', []) if f != args[1]]))
            elif action == 'strip':
                w.edit(K, 'ns', args[0], lambda o: o['metadata'].__setitem__(
                    'finalizers', [f for f in o['metadata'].get('finalizers', []) if f != FINALIZER]))
            elif action == 'restart':
                p = env.memo.get('pipeline')
                if p is not None:
                    p.stop()
                    env.memo['pipeline'] = None
                    env.memo['stopping'] = p.task
                    env.memo['stopping_opid'] = p.opid
                self.start_when_stopped(env)
            elif action == 'admit':
                # the API server asks the operator's admission webhook about an UPDATE of the object (somebody runs `kubectl edit` and saves):
                # the request is served by the running process with the very memories its watchers use - possibly before they have listed anything
                p = env.memo.get('pipeline')
                obj = w.get(K, 'ns', args[0])
                if p is not None and obj is not None:
                    from kopf._cogs.structs import ephemera, references
                    from kopf._core.engines import admission
                    from kv.harness.op import resource_of
                    ins = references.Insights()
                    ins.webhook_resources.add(resource_of(K))
                    req = {'apiVersion': 'admission.k8s.io/v1', 'kind': 'AdmissionReview',
                           'request': {'uid': f'req-{env.count("admit")}', 'kind': {'group': K.group, 'version': K.version, 'kind': K.kind},
                                       'resource': {'group': K.group, 'version': K.version, 'resource': K.plural}, 'subResource': None,
                                       'name': args[0], 'namespace': 'ns', 'operation': 'UPDATE', 'userInfo': {'username': 'u', 'uid': 'x', 'groups': []},
                                       'dryRun': False, 'object': json.loads(json.dumps(obj)), 'oldObject': json.loads(json.dumps(obj))}}

                    async def serve() -> None:
                        rsp = await admission.serve_admission_request(req, settings=p.settings, memories=p.memories, memobase=ephemera.AnyMemo(ephemera.Memo()),
                                                                      registry=p.registry, insights=ins, indices=p.indexers.indices)    # type: ignore[arg-type]
                        env.log('admitted', name=args[0], allowed=rsp['response']['allowed'])
                    env.spawn(p.opid, serve(), name=f'admission request for {args[0]}')
            elif action == 'restartadmit':      # ... the first thing that happens to the new process, before its watcher has listed the objects
                env.memo['admit_on_start'] = args[0]
                self._action('restart', [])(env)
            elif action == 'stop':
                p = env.memo.get('pipeline')
                if p is not None:
                    p.stop()
                    env.memo['pipeline'] = None
                    env.memo['stopping'] = p.task
                    env.memo['stopping_opid'] = p.opid
            elif action == 'start':
                self.start_when_stopped(env)
            elif action == 'kill':
                p = env.memo.get('pipeline')
                if p is not None:
                    env.kill(p.opid)
                    env.memo['pipeline'] = None
            elif action == 'killrestart':
                self.kill_and_restart(env)
            elif action == 'pause':
                p = env.memo.get('pipeline')
                if p is not None and getattr(p, 'pause_toggle', None) is not None:     # (no process up, or not that far yet: nothing to pause)
                    env.loop.create_task(p.pause_toggle.turn_to(True), name='user pause')
            elif action == 'pausestatus':     # the operator is told to pause in the very moment somebody touches the object
                p = env.memo.get('pipeline')
                if p is not None and getattr(p, 'pause_toggle', None) is not None:
                    env.loop.create_task(p.pause_toggle.turn_to(True), name='user pause')
                w.merge(K, 'ns', args[0], {'status': {'foreign': args[1]}})
            elif action == 'resume':
                p = env.memo.get('pipeline')
                if p is not None and getattr(p, 'pause_toggle', None) is not None:
                    env.loop.create_task(p.pause_toggle.turn_to(False), name='user resume')
            elif action == 'compact':
                w.compact(K)
            elif action in ('relist', 'reconnect', 'reset', 'bookmark'):
                p = env.memo.get('pipeline')
                verb = {'relist': 'gone410', 'reconnect': 'eof', 'reset': 'reset', 'bookmark': 'bookmark'}[action]
                for st in w.open_streams():
                    if p is not None and st.opid == p.opid and st.kind.key == K.key:
                        env.stream_fault(st, verb)
            elif action == 'noop':
                pass
            else:
                raise ValueError(action)
        return do

    def start_when_stopped(self, env: Env) -> None:
        """A new process starts only after the previous one has fully exited (as a real restart does)."""
        old = env.memo.get('stopping')
        if old is None or old.done():
            env.memo['stopping'] = None
            self.start_operator(env)
        else:
            env.memo['starting'] = True

            def later(_: Any) -> None:
                if env.memo.pop('starting', False) and not env.closed:
                    env.memo['stopping'] = None
                    self.start_operator(env)
            old.add_done_callback(later)

    def kill_and_restart(self, env: Env) -> None:
        p = env.memo.get('pipeline')
        if p is not None:
            env.kill(p.opid)
        else:
            # no process is up: the previous one may still be in its graceful exit (with its successor waiting for that): THAT one is
            # killed, and the successor that was waiting is the process started now - never two live processes
            old = env.memo.get('stopping')
            if old is not None and not old.done() and env.memo.get('stopping_opid'):
                env.kill(env.memo['stopping_opid'])
            env.memo['stopping'] = None
            env.memo.pop('starting', None)
        env.count('kills')
        self.start_operator(env)

    # -- environment hooks --
    def extra(self, env: Env) -> Iterable[tuple[str, Callable[[], None]]]:
        if self.params.get('kills') and env.counters.get('kills', 0) < self.params.get('max_kills', 1):
            p = env.memo.get('pipeline')
            if p is not None and any(r.opid == p.opid for r in env.world.pending):
                yield f'kill:{p.opid}', lambda: self.kill_and_restart(env)

    def faults(self, env: Env, req: Request) -> Iterable[str]:
        allowed = self.params.get('faults')
        if not allowed:
            return ()
        if env.counters.get('faults', 0) >= self.params.get('max_faults', 1):
            return ()
        if self.params.get('fault_methods') and req.method not in self.params['fault_methods']:
            return ()
        if req.method == 'patch' or self.params.get('fault_all'):
            return [f for f in allowed if not (f == 'lost' and req.state != 'new')] if req.state == 'new' else ()
        return ()

    def serve_fault(self, env: Env, req: Request) -> str | None:
        # scripted: the worker's PATCH requests issued inside `fail_window` are answered 500 (the object's processing fails and is throttled)
        win = self.params.get('fail_window')
        if win and req.method == 'patch' and req.origin.startswith('worker for') and float(win[0]) <= env.now < float(win[1]):
            return '500'
        return None

    def delays(self, env: Env, req: Request) -> bool:
        return bool(self.params.get('delays', True)) and req.method == 'patch'

    def allow_time_deviation(self, env: Env) -> bool:
        return self.params.get('time_dev', True)

    def allow_early_user(self, env: Env, action: UserAction) -> bool:
        return self.params.get('early_user', True)

    # -- network holds (params['holds'] = [(start, end, 'all' | 'echo')]) --
    def deliverable(self, env: Env, s: Any, item: Any) -> bool:
        """Network holds: events caused after the user's last edit are released at chosen instants."""
        holds = self.params.get('holds')
        if not holds or not isinstance(item, dict) or item.get('type') not in ('ADDED', 'MODIFIED', 'DELETED'):
            return True
        rv = int(item['object']['metadata']['resourceVersion'])
        actor = None
        user_rv = 0
        for w in env.world.writes:
            if w['post'] is None:
                continue
            wrv = int(w['post']['metadata']['resourceVersion'])
            if w['actor'] == 'user':
                user_rv = max(user_rv, wrv)
            if wrv == rv:
                actor = w['actor']
        if rv <= user_rv:
            return True
        for start, end, which in holds:
            if start <= env.now < end:
                if which == 'all' or (which == 'echo' and actor is not None and actor.startswith('op:')):
                    return False
        return True

    def instants(self, env: Env) -> Iterable[float]:
        for start, end, which in self.params.get('holds', []):
            yield start
            yield end

    # -- helpers for oracles --
    def handler_ids(self) -> list[str]:
        ids = [h['id'] for h in self.params['handlers']]
        for parent in self.params.get('subs', {}):
            ids += self.descendants(parent)
        return ids

    def descendants(self, hid: str) -> list[str]:
        """Ids of all sub-handlers below a top-level handler (any depth)."""
        def walk(prefix: str, subs: list[dict]) -> list[str]:
            out: list[str] = []
            for s in subs:
                out.append(f"{prefix}/{s['id']}")
                out += walk(f"{prefix}/{s['id']}", s.get('subs', []))
            return out
        top = hid.split('/')[0]
        return [i for i in walk(top, self.params.get('subs', {}).get(top, [])) if i.startswith(hid + '/')]

    def op_writes(self, env: Env, name: str | None = None) -> list[dict]:
        return [w for w in env.world.writes if w['actor'].startswith('op:') and (name is None or w['name'] == name)]

    def carveouts(self, env: Env) -> bool:
        """Did this execution contain a crash, a lost response, or an over-long echo delay?"""
        if env.counters.get('kills') or any(k == 'kill' for _, k, _ in env.obs):
            return True
        if any(r.fault for r in env.world.requests):
            return True
        return False
