"""
Harness scopes S2 (object pipeline) and S3 (whole operator): the real kopf code wired to the
World through kopf's own `AiohttpSession` credentials seam. Scripted user handlers.
"""
from __future__ import annotations

import asyncio
import json
import functools
from typing import Any, Callable

import kopf
from kopf._cogs.clients import auth
from kopf._cogs.configs import configuration
from kopf._cogs.structs import credentials, ephemera, references
from kopf._core.actions import lifecycles
from kopf._core.engines import daemons, indexing, posting
from kopf._core.reactor import inventory, processing, queueing
from kopf._cogs.aiokits import aiotoggles

from kv.explorer import Env
from kv.world import KEX, Kind, World, FakeSession


def resource_of(kind: Kind) -> references.Resource:
    return references.Resource(
        group=kind.group, version=kind.version, plural=kind.plural, kind=kind.kind,
        singular=kind.singular, shortcuts=frozenset(kind.short), categories=frozenset(kind.categories),
        subresources=frozenset(kind.subresources), namespaced=kind.namespaced, preferred=True,
        verbs=frozenset(kind.verbs))


def make_settings(**kw: Any) -> configuration.OperatorSettings:
    s = configuration.OperatorSettings()
    s.process.ultimate_exiting_timeout = None
    s.posting.enabled = False
    s.peering.standalone = True
    s.scanning.disabled = False
    s.networking.error_backoffs = ()
    s.networking.request_timeout = None
    s.watching.inactivity_timeout = 10_000.0
    s.watching.reconnect_backoff = 0.125
    s.execution.default_backoff = 8
    s.background.cancellation_polling = 4
    for path, value in kw.items():
        obj: Any = s
        parts = path.split('__')
        for p in parts[:-1]:
            obj = getattr(obj, p)
        setattr(obj, parts[-1], value)
    return s


def make_vault(world: World) -> credentials.Vault:
    return credentials.Vault({'fake': credentials.AiohttpSession(
        server=World.SERVER, aiohttp_session=FakeSession(world))})  # type: ignore[arg-type]


def add_login(registry: kopf.OperatorRegistry, world: World, env: Env | None = None) -> None:
    @kopf.on.login(registry=registry, id='login')
    async def login(**_: Any) -> Any:
        if env is not None:
            env.log('login')
        return credentials.AiohttpSession(server=World.SERVER, aiohttp_session=FakeSession(world))  # type: ignore[arg-type]


# ---- scripted handlers ---------------------------------------------------------------------------

class Outcome:
    """One step of a handler's outcome script."""
    def __init__(self, kind: str, delay: float | None = None, result: Any = None, sleep: float = 0.0,
                 patch: dict | None = None, edit: dict | None = None, addfin: str | None = None, stamp: bool = False) -> None:
        self.kind, self.delay, self.result, self.sleep, self.patch = kind, delay, result, sleep, patch
        self.stamp = stamp   # the invocation leaves its number in status.p_<id> (a field) and bumps status.c_<id> (a non-idempotent transformation)
        self.edit = edit   # a foreign write to the same object made while the handler runs
        self.addfin = addfin   # a user transformation (patch.fns, docs/patches.rst): add this finalizer if it is not there

    def __repr__(self) -> str:
        extras = ''.join(f',{k}={v!r}' for k, v in (('delay', self.delay), ('sleep', self.sleep)) if v)
        return f'{self.kind}{extras}'


OK = Outcome('ok')


def temp(delay: float | None = 3) -> Outcome:
    return Outcome('temp', delay=delay)


PERM = Outcome('perm')
ARB = Outcome('arb')


def essence_of(body: Any) -> dict:
    """What an observer considers the essential state of a body (spec + labels + plain annotations)."""
    meta = body.get('metadata', {})
    anns = {k: v for k, v in (meta.get('annotations') or {}).items()
            if not k.startswith('kopf.zalando.org/') and not k.endswith('/kopf-managed')
            and k != 'kubectl.kubernetes.io/last-applied-configuration'}
    out: dict[str, Any] = {}
    if 'spec' in body:
        out['spec'] = _plain(body['spec'])
    if meta.get('labels'):
        out['labels'] = dict(meta['labels'])
    if anns:
        out['annotations'] = anns
    return out


def _plain(x: Any) -> Any:
    if hasattr(x, 'items'):
        return {k: _plain(v) for k, v in x.items()}
    if isinstance(x, (list, tuple)):
        return [_plain(v) for v in x]
    return x


def scripted(env: Env, hid: str, script: list[Outcome], *, cursor: str | None = None,
             extra: Callable[..., dict] | None = None) -> Callable[..., Any]:
    """An async handler that logs its invocation and follows its outcome script.

    The cursor (how many times it was invoked) lives in env.counters: it survives operator
    restarts within one execution (a handler "fails the next n times", whoever calls it)."""
    ckey = cursor or f'script:{hid}'

    async def fn(**kw: Any) -> Any:
        n = env.counters.get(ckey, 0)
        env.counters[ckey] = n + 1
        out = script[min(n, len(script) - 1)]
        body = kw.get('body')
        rec = dict(id=hid, retry=kw.get('retry'), n=n, outcome=repr(out))
        if body is not None:
            meta = body.get('metadata', {})
            rec.update(uid=meta.get('uid'), name=meta.get('name'), rv=meta.get('resourceVersion'),
                       essence=essence_of(body), deleting='deletionTimestamp' in meta,
                       finalizers=list(meta.get('finalizers') or []),
                       annkeys=sorted((meta.get('annotations') or {}).keys()),
                       anns={k: v for k, v in (meta.get('annotations') or {}).items() if k.startswith('kopf.zalando.org/')},
                       status=_plain(body.get('status', {})), raw=_plain(body))
        if 'reason' in kw:
            rec['reason'] = str(kw['reason'])
        if 'old' in kw:
            rec['old'] = _plain(kw.get('old'))
            rec['new'] = _plain(kw.get('new'))
            rec['diff'] = [tuple(d) for d in (kw.get('diff') or ())]
        if 'type' in kw and 'event' in kw:
            rec['etype'] = kw['type']
            # the watch event itself, as it came off the wire (the `body` kwarg is what the framework made of it)
            rec['evraw'] = _plain((kw['event'] or {}).get('object')) if isinstance(kw['event'], dict) or hasattr(kw['event'], 'get') else None
        if extra is not None:
            rec.update(extra(**kw))
        from kv.vloop import OPID
        rec['op'] = OPID.get()
        env.log('call', **rec)
        try:
            if out.sleep:
                await asyncio.sleep(out.sleep)
            if out.edit and body is not None:
                from kv.world import KEX
                kinds = [k for k in env.world.kinds.values() if k.kind == body.get('kind')] or [KEX]
                env.world.merge(kinds[0], body['metadata'].get('namespace'), body['metadata']['name'], out.edit,
                                actor='foreign')
            if out.patch and 'patch' in kw:
                # '$rv' stands for the version of the view the handler was given (a note that differs from event to event)
                rv_now = (body or {}).get('metadata', {}).get('resourceVersion') if body is not None else None
                foreign_now = ((body or {}).get('status') or {}).get('foreign') if body is not None else None
                _deep_update(kw['patch'], json.loads(json.dumps(out.patch).replace('$rv', str(rv_now)).replace('$foreign', str(foreign_now)).replace('$uid', str((body or {}).get('metadata', {}).get('uid') if body is not None else None))))
            if out.stamp and 'patch' in kw:
                import functools
                _deep_update(kw['patch'], {'status': {f'p_{hid}': n}})
                kw['patch'].fns.append(functools.partial(_bump, key=f'c_{hid}'))
            if out.addfin and 'patch' in kw:
                import functools
                kw['patch'].fns.append(functools.partial(_add_finalizer, name=out.addfin))
            if out.kind == 'ok':
                return out.result
            if out.kind == 'temp':
                raise kopf.TemporaryError('scripted temporary', delay=out.delay)
            if out.kind == 'perm':
                raise kopf.PermanentError('scripted permanent')
            if out.kind == 'arb':
                raise ValueError('scripted arbitrary')
            raise RuntimeError(f'bad outcome {out.kind}')
        finally:
            env.log('ret', id=hid, n=n, uid=rec.get('uid'), op=rec['op'])
    fn.__name__ = fn.__qualname__ = hid
    return fn


def scripted_sync(env: Env, hid: str, script: list[Outcome]) -> Callable[..., Any]:
    """A SYNCHRONOUS handler (kopf runs it "in a thread": see VLoop.run_in_executor): each invocation lasts its outcome's
    `sleep` in virtual time, cannot be cancelled meanwhile, then returns / raises as scripted."""
    ckey = f'script:{hid}'

    def fn(**kw: Any) -> Any:
        n = env.counters.get(ckey, 0)
        env.counters[ckey] = n + 1
        out = script[min(n, len(script) - 1)]
        fn.__kv_duration__ = script[min(n + 1, len(script) - 1)].sleep   # type: ignore[attr-defined]   # of the NEXT invocation
        from kv.vloop import OPID
        env.log('call', id=hid, retry=kw.get('retry'), n=n, outcome=repr(out), op=OPID.get(), sync=True)
        env.log('ret', id=hid, n=n, uid=None, op=OPID.get())
        if out.kind == 'ok':
            return out.result
        if out.kind == 'temp':
            raise kopf.TemporaryError('scripted temporary', delay=out.delay)
        if out.kind == 'perm':
            raise kopf.PermanentError('scripted permanent')
        raise ValueError('scripted arbitrary')
    fn.__name__ = fn.__qualname__ = hid
    fn.__kv_duration__ = script[0].sleep     # type: ignore[attr-defined]
    fn.__kv_on_start__ = lambda **_: env.log('sync-start', id=hid)    # type: ignore[attr-defined]
    return fn


def daemon_sync_fn(env: Env, hid: str, duration: float) -> Callable[..., Any]:
    """A SYNCHRONOUS daemon (a plain `def`, run in a thread): it blocks for `duration` virtual seconds, deaf to the stop flag and
    uncancellable (a thread), then returns. Logs the same daemon-enter / daemon-flag / daemon-exit records as daemon_fn."""
    from kv.vloop import OPID
    state: dict[str, Any] = {}

    def on_start(**kw: Any) -> None:
        body = kw.get('body') or {}
        meta = body.get('metadata', {}) if hasattr(body, 'get') else {}
        inst = env.count(f'daemon-inst:{hid}')
        state['cur'] = dict(uid=meta.get('uid'), name=meta.get('name'), op=OPID.get(), inst=inst, stopped=kw.get('stopped'))
        env.log('daemon-enter', id=hid, uid=meta.get('uid'), name=meta.get('name'), op=OPID.get(), inst=inst, retry=kw.get('retry'), sync=True)

    def fn(**kw: Any) -> None:
        cur = state.get('cur') or {}
        stopped = kw.get('stopped')
        if stopped is not None and stopped.is_set():
            env.log('daemon-flag', id=hid, uid=cur.get('uid'), name=cur.get('name'), op=cur.get('op'), inst=cur.get('inst'), reason=str(getattr(stopped, 'reason', None)))
        env.log('daemon-exit', id=hid, uid=cur.get('uid'), name=cur.get('name'), op=cur.get('op'), inst=cur.get('inst'), how='returned-late' if stopped is not None and stopped.is_set() else 'returned')
    fn.__name__ = fn.__qualname__ = hid
    fn.__kv_duration__ = float(duration)     # type: ignore[attr-defined]
    fn.__kv_on_start__ = on_start            # type: ignore[attr-defined]
    return fn


def daemon_fn(env: Env, hid: str, reaction: str = 'obeys', lifetime: float | None = None,
              exit_delay: float = 0.0) -> Callable[..., Any]:
    """A daemon body with a scripted reaction to being stopped.

    obeys:   returns `exit_delay` after the stop flag is set
    cancel:  ignores the flag, ends only when cancelled (`exit_delay` after the cancellation)
    ignore:  ignores the flag and swallows cancellations (can only be abandoned)
    exits:   returns on its own after `lifetime`"""
    from kv.vloop import OPID

    async def fn(**kw: Any) -> None:
        stopped = kw['stopped']
        body = kw['body']
        uid, name = body['metadata'].get('uid'), body['metadata']['name']
        op = OPID.get()
        inst = env.count(f'daemon-inst:{hid}')
        env.log('daemon-enter', id=hid, uid=uid, name=name, op=op, inst=inst, retry=kw.get('retry'))

        flagged = []

        async def flagwatch() -> None:
            await stopped.wait()
            if not flagged:
                flagged.append(True)
                env.log('daemon-flag', id=hid, uid=uid, name=name, op=op, inst=inst, reason=str(stopped.reason))
        watcher = asyncio.create_task(flagwatch(), name=f'flagwatch {hid} {inst}')
        how = 'returned'

        def seen_flag() -> None:
            # the flag as the daemon sees it when the cancellation reaches it (the watching task may not have had its turn yet)
            if stopped.is_set() and not flagged:
                flagged.append(True)
                env.log('daemon-flag', id=hid, uid=uid, name=name, op=op, inst=inst, reason=str(stopped.reason))

        try:
            if reaction == 'exits':
                await asyncio.sleep(lifetime or 0)
            elif reaction == 'obeys':
                await stopped.wait()
                if exit_delay:
                    await asyncio.sleep(exit_delay)
            elif reaction == 'cancel':
                try:
                    await asyncio.Event().wait()
                except asyncio.CancelledError:
                    how = 'cancelled'
                    seen_flag()
                    env.log('daemon-cancelled', id=hid, uid=uid, name=name, op=op, inst=inst)
                    if exit_delay:
                        try:
                            await asyncio.sleep(exit_delay)
                        except asyncio.CancelledError:
                            pass
                    raise
            elif reaction == 'ignore':
                while True:
                    try:
                        await asyncio.Event().wait()
                    except asyncio.CancelledError:
                        seen_flag()
                        env.log('daemon-cancelled', id=hid, uid=uid, name=name, op=op, inst=inst)
                        if env.closed:
                            how = 'teardown'
                            raise
            else:
                raise RuntimeError(reaction)
        finally:
            watcher.cancel()
            if stopped.is_set() and not flagged:
                env.log('daemon-flag', id=hid, uid=uid, name=name, op=op, inst=inst, reason=str(stopped.reason))
            env.log('daemon-exit', id=hid, uid=uid, name=name, op=op, inst=inst, how=how)
    fn.__name__ = fn.__qualname__ = hid
    return fn


def _add_finalizer(body: Any, /, name: str) -> None:
    fins = body.setdefault('metadata', {}).setdefault('finalizers', [])
    if name not in fins:
        fins.append(name)


def _bump(body: Any, /, key: str) -> None:
    st = body.setdefault('status', {})
    st[key] = int(st.get(key) or 0) + 1


def _deep_update(dst: Any, src: dict) -> None:
    for k, v in src.items():
        if isinstance(v, dict):
            _deep_update(dst.setdefault(k, {}), v)
        else:
            dst[k] = v


# ---- S2: the object pipeline -----------------------------------------------------------------------

class Pipeline:
    """queueing.watcher + process_resource_event + daemon_killer for one resource kind."""

    def __init__(self, env: Env, opid: str, registry: kopf.OperatorRegistry,
                 settings: configuration.OperatorSettings, kind: Kind = KEX,
                 namespace: str | None = None, lifecycle: Any = None, with_killer: bool = True) -> None:
        self.env, self.opid, self.registry, self.settings, self.kind = env, opid, registry, settings, kind
        self.namespace = namespace
        self.lifecycle = lifecycle if lifecycle is not None else lifecycles.asap
        self.with_killer = with_killer
        self.memories = inventory.ResourceMemories()
        self.indexers = indexing.OperatorIndexers()
        self.paused: aiotoggles.ToggleSet | None = None
        self.pause_toggle: aiotoggles.Toggle | None = None
        self.tasks: list[Any] = []

    async def _main(self) -> None:
        env = self.env
        auth.vault_var.set(make_vault(env.world))
        posting.settings_var.set(self.settings)
        self.indexers.ensure(self.registry._indexing.get_all_handlers())
        self.paused = aiotoggles.ToggleSet(any)
        self.pause_toggle = await self.paused.make_toggle(name='harness pause')
        resource = resource_of(self.kind)
        event_queue: Any = asyncio.Queue()
        processor = functools.partial(
            processing.process_resource_event,
            lifecycle=self.lifecycle, registry=self.registry, settings=self.settings,
            indexers=self.indexers, memories=self.memories, memobase=ephemera.AnyMemo(ephemera.Memo()),
            operator_paused=self.paused, event_queue=event_queue, resource=resource)
        watcher = asyncio.create_task(queueing.watcher(
            namespace=self.namespace, settings=self.settings, resource=resource, processor=processor,
            operator_paused=self.paused), name=f'watcher for {resource}')
        self.tasks.append(watcher)
        killer = None
        if self.with_killer:
            killer = asyncio.create_task(daemons.daemon_killer(
                settings=self.settings, memories=self.memories, operator_paused=self.paused),
                name='daemon killer')
            self.tasks.append(killer)
        try:
            await asyncio.wait({t for t in (watcher, killer) if t is not None}, return_when=asyncio.FIRST_COMPLETED)
        finally:
            # Mimic run_tasks(): cancel the root tasks, wait for them.
            for t in self.tasks:
                t.cancel()
            for t in self.tasks:
                try:
                    await t
                except BaseException as e:
                    if not isinstance(e, asyncio.CancelledError):
                        env.log('pipeline-error', op=self.opid, error=repr(e))
            env.log('pipeline-exit', op=self.opid)

    def start(self) -> Any:
        self.task = self.env.spawn(self.opid, self._main(), name=f'pipeline {self.opid}')
        self.env.log('start', op=self.opid)
        return self.task

    def stop(self) -> None:
        self.env.log('stop', op=self.opid)
        self.task.cancel()


# ---- S3: the whole operator ------------------------------------------------------------------------

class Operator:
    def __init__(self, env: Env, opid: str, registry: kopf.OperatorRegistry,
                 settings: configuration.OperatorSettings, **kwargs: Any) -> None:
        self.env, self.opid, self.registry, self.settings = env, opid, registry, settings
        self.kwargs = kwargs
        self.stop_flag: asyncio.Event | None = None
        self.ready_flag: asyncio.Event | None = None
        self.result: Any = None
        self.memories = inventory.ResourceMemories()

    async def _main(self) -> None:
        env = self.env
        self.stop_flag = asyncio.Event()
        self.ready_flag = asyncio.Event()
        kwargs = dict(clusterwide=True, identity=self.opid)
        kwargs.update(self.kwargs)
        try:
            await kopf.operator(registry=self.registry, settings=self.settings, memories=self.memories,
                                stop_flag=self.stop_flag, ready_flag=self.ready_flag, **kwargs)  # type: ignore[arg-type]
        except asyncio.CancelledError:
            env.log('operator-exit', op=self.opid, how='cancelled')
            raise
        except BaseException as e:
            env.log('operator-exit', op=self.opid, how='raised', error=repr(e)[:200], etype=type(e).__name__)
        else:
            env.log('operator-exit', op=self.opid, how='returned')

    def start(self) -> Any:
        self.task = self.env.spawn(self.opid, self._main(), name=f'operator {self.opid}')
        self.env.log('start', op=self.opid)
        return self.task

    def stop(self) -> None:
        self.env.log('stop', op=self.opid)
        if self.stop_flag is not None:
            self.stop_flag.set()

    def cancel(self) -> None:
        self.env.log('cancel', op=self.opid)
        self.task.cancel()
