"""Command line: ./run check Cnn [--tier quick|thorough] | replay <file> | selftest | list"""
from __future__ import annotations

import argparse
import importlib
import json
import os
import sys
import time
import traceback


def _selftests() -> None:
    from kv import world
    from kv.ref import rfc6902, rfc7386
    rfc7386.selftest()
    rfc6902.selftest()
    world.selftest()


def main(argv: list[str] | None = None) -> int:
    ap = argparse.ArgumentParser(prog='run')
    sub = ap.add_subparsers(dest='cmd', required=True)
    c = sub.add_parser('check')
    c.add_argument('prop')
    c.add_argument('--tier', default=os.environ.get('VERIF_TIER', 'quick'), choices=['quick', 'thorough'])
    c.add_argument('--seed', type=int, default=int(os.environ.get('VERIF_SEED', '0') or 0))
    r = sub.add_parser('replay')
    r.add_argument('path')
    sub.add_parser('selftest')
    args = ap.parse_args(argv)

    import warnings
    warnings.simplefilter('ignore')
    import kopf
    repo = os.environ.get('KV_REPO', '/repo')
    if not os.path.abspath(kopf.__file__).startswith(os.path.abspath(repo) + os.sep):
        print(f"HARNESS ERROR: kopf is imported from {kopf.__file__}, not from {repo}", file=sys.stderr)
        return 2
    from kv.vloop import HarnessError
    try:
        _selftests()
        if args.cmd == 'selftest':
            print('selftests ok')
            return 0
        if args.cmd == 'check':
            mod = importlib.import_module(f'kv.checks.{args.prop.lower()}')
            t0 = time.time()
            res = mod.run(args.tier, args.seed)
            from kv import runner
            return runner.finish(res, t0, reverify=getattr(mod, 'reverify', None))
        if args.cmd == 'replay':
            with open(args.path) as f:
                rec = json.load(f)
            mod = importlib.import_module(f"kv.checks.{rec['property'].lower()}")
            return mod.replay(rec)
    except HarnessError as e:
        print(f"HARNESS ERROR: {e}", file=sys.stderr)
        return 2
    except AssertionError:
        traceback.print_exc()
        print("HARNESS ERROR: self-test or internal assertion failed", file=sys.stderr)
        return 2
    except Exception:     # the machinery itself broke: never exit code 1 (that is reserved for a reported violation)
        traceback.print_exc()
        print("HARNESS ERROR: the check crashed", file=sys.stderr)
        return 2
    return 0


if __name__ == '__main__':
    sys.exit(main())
