"""Model-checking machinery for nolar/kopf (see /verif/DESIGN.md)."""
