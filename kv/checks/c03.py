"""
C03 Level-triggered convergence across changes, restarts and downtime.

Subject: the closed loop (watcher, processing, application.apply's sleep/touch, diff-base, the
initial listing on every start) with restarts, kills and downtimes.
Search: every history up to depth d over {spec a->b, spec b->a, label edit, status edit, delete,
kill+restart, graceful restart, downtime with an edit inside}, two spacings, two handler sets,
handlers that fail their next n attempts; crash points (kill before / after the server applied each
in-flight PATCH) and deviation-bounded timing on the shorter histories.
Oracle at quiescence: the operator has stopped writing; a live object carries no progress records
and last-handled == its essence; a deleted object is gone; every handler selected for the
outstanding change finished on the final essential state; a change made during downtime is handled
as one accumulated change (old = pre-downtime, new = final).
"""
from __future__ import annotations

import itertools
from typing import Any

from kv.explorer import Env, Scenario, Violation, execute
from kv.harness.change import (ChangeScenario, any_progress_keys, essence_ref, last_handled)
from kv.runner import CheckResult, run_groups

SETTLE = 24.0


class C03Scenario(ChangeScenario):
    name = 'c03'
    prop = 'C03'

    def extra(self, env: Env) -> Any:
        yield from super().extra(env)
        if self.params.get('kills') and env.counters.get('kills', 0) < self.params.get('max_kills', 1):
            p = env.memo.get('pipeline')
            if p is not None:
                mine = [r for r in env.world.pending if r.opid == p.opid and r.state == 'new' and r.method == 'patch']
                if mine:
                    def go(req: Any = mine[0]) -> None:
                        env.world.apply(req)
                        env.log('srv', verb='apply-then-kill', **req.brief())
                        self.kill_and_restart(env)
                    yield f'killafter:{p.opid}', go

    def check(self, env: Env) -> list[Violation]:
        out: list[Violation] = []
        if env.end_reason in ('stall', 'livelock', 'step-budget', 'deadlock'):
            return [self.viol(env, 'no-progress', f'execution ended with {env.end_reason}', end=env.end_reason)]
        K = self.kind
        # The last external activity: user actions, kills, restarts, and late answers / late deliveries
        # (a response or an event that the environment held back is external activity at its arrival).
        written_at = {int(w['post']['metadata']['resourceVersion']): w['t'] for w in env.world.writes if w['post'] is not None}
        t_last = max([t for t, k, p in env.obs if k in ('user', 'kill', 'start', 'extra')]
                     + [t for t, k, p in env.obs if k == 'srv' and p.get('t_issued') is not None and t > p['t_issued']]
                     + [t for t, k, p in env.obs if k == 'deliver' and isinstance(p['item'], tuple) and p['item'][2]
                        and written_at.get(int(p['item'][2]), t) < t]
                     + [0.0])
        t_settle = t_last + SETTLE
        if env.now < t_settle + 5 or env.owes():
            return []   # horizon too short to judge (does not happen with the generated horizons)
        late = [w for w in self.op_writes(env) if w['t'] > t_settle]
        if late:
            times = sorted({w['t'] for w in late})
            out.append(self.viol(env, 'never-quiesces',
                                 f"the operator still writes after t={t_settle}: at {times[:6]} (last external action at {t_last})",
                                 clause='terminates'))
        calls = [(t, p) for t, k, p in env.obs if k == 'call' and p.get('reason') in ('create', 'update', 'delete', 'resume')]
        by_reason = {r: [h['id'] for h in self.params['handlers'] if h['on'] == r] for r in ('create', 'update', 'delete')}
        for (ns, name), obj in env.world.objects[K.key].items():
            if 'deletionTimestamp' in obj['metadata']:
                out.append(self.viol(env, 'not-released', f"object {name} is still marked for deletion at the horizon "
                                                          f"(finalizers {obj['metadata'].get('finalizers')})", clause='deleted-gone'))
                continue
            left = any_progress_keys(obj)
            if left:
                # the structural pattern of a known defect: the change the record belongs to was taken back while its handler was between
                # retries - the object is in its last-handled state again (nothing to handle, no cause), the record is never looked at again
                uid0 = obj['metadata']['uid']
                last_calls = {}
                for t, k, p in env.obs:
                    if k == 'call' and p.get('uid') == uid0 and p.get('reason') in ('create', 'update', 'resume'):
                        last_calls[p['id']] = p
                ids_left = {h['id'] for h in self.params['handlers'] if any(h['id'].replace('/', '.') in key for key in left)}
                # (siblings that already succeeded on the reverted state keep their records too: the cycle never closes)
                # (... and so do siblings that were not even started yet: kopf writes a record for every handler of the cycle)
                reverted = bool(ids_left) and last_handled(obj) == essence_ref(obj) and all(
                    i not in last_calls or essence_ref(last_calls[i]['raw']) != essence_ref(obj) for i in ids_left) and any(
                    i in last_calls and last_calls[i]['outcome'].split(',')[0] not in ('ok', 'perm') for i in ids_left)
                out.append(self.viol(env, 'progress-left', f"object {name} still carries progress records {left}", clause='no-progress',
                                     pattern='change-reverted-between-retries' if reverted else 'other'))
            E = essence_ref(obj)
            lh = last_handled(obj)
            if lh != E:
                out.append(self.viol(env, 'last-handled-differs', f"object {name}: last-handled {lh} != essence {E}", clause='last-handled'))
            # -- handlers completed on the final state --
            uid = obj['metadata']['uid']
            ess_writes = []
            prev = None
            for w in env.world.writes:
                if w['kind'] == K.plural and w['name'] == name and w['post'] is not None and w['post']['metadata']['uid'] == uid:
                    e = essence_ref(w['post'])
                    if prev is None or e != prev:
                        ess_writes.append((w['t'], w, e))
                    prev = e
            if not ess_writes:
                continue
            t_c, w_c, _ = ess_writes[-1]
            lh_before = last_handled(w_c['pre']) if w_c['pre'] is not None else None
            if w_c['pre'] is not None and lh_before == E:
                continue    # the last essential write restored the handled state: nothing outstanding
            # The final cycle = everything after the previous close (the previous change of last-handled).
            lh_changes = [i for i, w in enumerate(env.world.writes)
                          if w['kind'] == K.plural and w['post'] is not None and w['post']['metadata']['uid'] == uid
                          and w['pre'] is not None and last_handled(w['post']) != last_handled(w['pre'])]
            idx_open = lh_changes[-2] if len(lh_changes) >= 2 and last_handled(obj) == E else (lh_changes[-1] if lh_changes and last_handled(obj) != E else -1)
            idx_c = env.world.writes.index(w_c)
            in_cycle: dict[str, list[tuple[bool, dict]]] = {}     # handler -> [(after the last essential write?, call)]
            after_edit = False
            opened = idx_open < 0
            for t, k, p in env.obs:
                if k == 'write' and p['idx'] == idx_open:
                    opened = True
                if k == 'write' and p['idx'] == idx_c:
                    after_edit = True
                if opened and k == 'call' and p.get('uid') == uid and p.get('reason') in ('create', 'update'):
                    in_cycle.setdefault(p['id'], []).append((after_edit, p))

            def final(p: dict) -> bool:
                return p['outcome'].split(',')[0] in ('ok', 'perm')

            ok_reason = None
            for R in ('create', 'update'):
                hs = by_reason[R]
                if hs and all(any(final(p) and essence_ref(p['raw']) == E for _, p in in_cycle.get(h, [])) for h in hs):
                    ok_reason = R
            if ok_reason is None and (by_reason['create'] or by_reason['update']):
                stale = sorted(h for hs in in_cycle.values() for _, p in hs for h in [p['id']]
                               if final(p) and essence_ref(p['raw']) != E)
                # the structural pattern of the known defect: one cycle spans an essential change - some
                # handlers finished on a view from before it, others finished on the final state, and the
                # cycle was closed with last-handled := final state.
                finished_before = any(final(p) and essence_ref(p['raw']) != E for hs in in_cycle.values() for after, p in hs)
                finished_after = any(final(p) and essence_ref(p['raw']) == E for hs in in_cycle.values() for after, p in hs)
                n_handlers = max(len(by_reason['create']), len(by_reason['update']), len(in_cycle))   # resume handlers mixed into the cycle count
                midcycle = finished_before and finished_after and lh == E and n_handlers >= 2
                out.append(self.viol(
                    env, 'handler-missed-final-state',
                    f"object {name}: after the last essential change (t={t_c}) the cycle closed although {sorted(set(stale))} "
                    f"completed only on an older state; final state {E}",
                    clause='handled-final-state',
                    pattern='edit-absorbed-in-mid-cycle' if midcycle else 'other'))
        # -- a deleted object is let go only after every deletion handler has completed (also when the next attempt is due at once) --
        for w in env.world.writes:
            if w['kind'] == K.plural and w['post'] is None and w['pre'] is not None and w['actor'].startswith('op:') \
                    and 'deletionTimestamp' in w['pre']['metadata']:
                uid = w['pre']['metadata']['uid']
                done_before = {p['id'] for t, k, p in env.obs if k == 'call' and p.get('uid') == uid and p.get('reason') == 'delete'
                               and p['outcome'].split(',')[0] in ('ok', 'perm') and t <= w['t']}
                missing = [h for h in by_reason['delete'] if h not in done_before]
                if missing:
                    out.append(self.viol(env, 'released-before-handlers-completed', f"object {w['name']} ({uid}) was released at t={w['t']} although the deletion "
                                                                                    f"handler(s) {missing} had not completed", clause='handled-final-state'))
        # -- downtime: one accumulated change --
        for dt in env.memo.get('downtimes', []):
            pass
        return out


def histories(depth: int) -> list[list[tuple[str, ...]]]:
    """All action sequences after the initial create, with light pruning of meaningless ones."""
    alphabet: list[tuple[str, ...]] = [('spec', 'a', 2), ('spec', 'a', 1), ('label', 'a', 'l', 'v'), ('status', 'a', 7),
                                       ('delete', 'a'), ('killrestart',), ('restart',), ('down-edit', 3), ('append', 'a'), ('down-append',)]
    out: list[list[tuple[str, ...]]] = []
    for d in range(0, depth + 1):
        for combo in itertools.product(alphabet, repeat=d):
            ok = True
            deleted = False
            for i, a in enumerate(combo):
                if deleted and a[0] in ('spec', 'label', 'status', 'delete', 'down-edit', 'append', 'down-append'):
                    ok = False
                    break
                if a[0] == 'delete':
                    deleted = True
                if i and combo[i - 1] == a and a[0] in ('status', 'restart', 'killrestart'):
                    ok = False
                    break
            if ok:
                out.append(list(combo))
    return out


def build(history: list[tuple[str, ...]], spacing: float, hset: int, fails: int, **kw: Any) -> C03Scenario:
    t = 1.0
    user: list[tuple] = [(t, 'create', 'a')]
    for a in history:
        t += spacing
        if a[0] == 'down-edit':
            user.append((t, 'stop'))
            user.append((t + (spacing / 4 if spacing else 0), 'spec', 'a', a[1]))
            user.append((t + (spacing / 2 if spacing else 0), 'start'))
        elif a[0] == 'down-append':      # a list in the spec grows at its tail while the operator is down
            user.append((t, 'stop'))
            user.append((t + (spacing / 4 if spacing else 0), 'append', 'a'))
            user.append((t + (spacing / 2 if spacing else 0), 'start'))
        else:
            user.append((t, *a))
    horizon = t + SETTLE + 16
    f = ['temp'] * fails
    if hset == 1:
        handlers = [dict(id='c1', on='create', script=f + ['ok']), dict(id='u1', on='update', script=f + ['ok']),
                    dict(id='d1', on='delete', script=f + ['ok'])]
    elif hset == 4:     # two resume handlers: under `asap` the resume cycle takes several rounds, each with a write of its own
        handlers = [dict(id='c1', on='create', script=['ok']), dict(id='u1', on='update', script=['ok']),
                    dict(id='r1', on='resume', script=['ok']), dict(id='r2', on='resume', script=f + ['ok']), dict(id='d1', on='delete', script=['ok'])]
    elif hset == 3:     # a resume handler that needs a retry takes part in whatever cycle the restart finds
        handlers = [dict(id='c1', on='create', script=['ok']), dict(id='u1', on='update', script=['ok']),
                    dict(id='r1', on='resume', script=f + ['ok']), dict(id='d1', on='delete', script=['ok'])]
    else:
        handlers = [dict(id='c1', on='create', script=['ok']), dict(id='c2', on='create', script=f + ['ok']),
                    dict(id='u1', on='update', script=f + ['ok']), dict(id='u2', on='update', script=['ok']),
                    dict(id='d1', on='delete', script=['ok'])]
    if hset == 7:   # handler ids long enough for kopf to keep every record under TWO differently named annotations (V1 and V2 names coincide for short ids)
        L = '_of_the_operator_that_reconciles_the_children_of_the_object'
        handlers = [dict(id='c1' + L, on='create', script=f + ['ok']), dict(id='u1' + L, on='update', script=f + ['ok']),
                    dict(id='u2' + L + '/spec.x', on='update', script=['ok']), dict(id='d1' + L, on='delete', script=f + ['ok'])]
    if hset == 8:   # a raw-event handler of the kind leaves an (idempotent) note through its patch on every event: from the second event on its
        # PATCH changes nothing, and the version such a PATCH returns never comes back through the watch
        handlers = [dict(id='ev', on='event', script=['ok+seen']), dict(id='c1', on='create', script=['ok']),
                    dict(id='u1', on='update', script=f + ['ok']), dict(id='d1', on='delete', script=['ok'])]
    if hset == 6:   # two deletion handlers (one per cycle under `asap`), the second asking for an immediate retry first
        handlers = [dict(id='c1', on='create', script=['ok']), dict(id='u1', on='update', script=['ok']),
                    dict(id='d1', on='delete', script=['ok']), dict(id='d2', on='delete', script=['temp0'] * fails + ['ok'])]
    if hset == 5:   # one sub-handler per item of spec.items (as in kopf's docs); the second item's sub-handler needs retries
        handlers = [dict(id='c1', on='create', script=['ok']), dict(id='u1', on='update', script=['ok']), dict(id='d1', on='delete', script=['ok'])]
        per_item = [dict(id='i1', when_item=1, script=['ok']), dict(id='i2', when_item=2, script=f + ['ok']), dict(id='i3', when_item=3, script=['ok'])]
        kw['subs'] = {'c1': per_item, 'u1': per_item}
        user[0] = (1.0, 'create', 'a', {'x': 1, 'items': [1, 2]})
    return C03Scenario(handlers=handlers, user=user, horizon=horizon, history=[list(a) for a in history],
                       spacing=spacing, hset=hset, fails=fails,
                       settings={'persistence__consistency_timeout': 5.0}, **kw)


def scenarios(tier: str) -> tuple[list[C03Scenario], list[C03Scenario], list[C03Scenario]]:
    depth = 3 if tier == 'quick' else 4
    hist: list[C03Scenario] = []
    for h in histories(depth):
        for spacing in (20.0, 0.0):
            for hset, fails in ((1, 1), (2, 1)) if tier == 'quick' else ((1, 0), (1, 2), (2, 1), (2, 2)):
                hist.append(build(h, spacing, hset, fails, delays=False, early_user=False, time_dev=False))
            if any(a[0] in ('restart', 'killrestart', 'down-edit', 'down-append') for a in h):
                hist.append(build(h, spacing, 3, 1, delays=False, early_user=False, time_dev=False))
                if len(h) <= 2 or tier != 'quick':
                    hist.append(build(h, spacing, 4, 0, delays=False, early_user=False, time_dev=False))
    # sub-handlers that follow a list in the spec, and the list shrinks / grows while one of them is between its retries
    for h in ([('truncate', 'a')], [('truncate', 'a'), ('append', 'a')], [('append', 'a')], [('append', 'a'), ('truncate', 'a')],
              [('truncate', 'a'), ('restart',)], [('truncate', 'a'), ('truncate', 'a')], [('truncate', 'a'), ('spec', 'a', 2)]):
        for spacing in (20.0, 2.0, 1.0, 0.0):
            for fails in (1, 2):
                hist.append(build(h, spacing, 5, fails, delays=False, early_user=False, time_dev=False))
    for h in histories(2):
        for spacing in (20.0, 0.0):
            hist.append(build(h, spacing, 7, 1, delays=False, early_user=False, time_dev=False))
    for h in histories(2):
        for spacing in (20.0, 2.0, 1.0, 0.0):     # ... the next edit comes while the operator still waits for that version (5 s), or later
            for fails in (0, 1):
                hist.append(build(h, spacing, 8, fails, delays=False, early_user=False, time_dev=False))
    for h in histories(2):
        if any(a[0] == 'delete' for a in h):
            for spacing in (20.0, 0.0):
                for fails in (0, 1, 2):
                    hist.append(build(h, spacing, 6, fails, delays=False, early_user=False, time_dev=False))
    # an edit that is taken back while the update handler waits for its retry (the object is in its last-handled state again)
    for back_after in (1.0, 2.0):
        sc = build([('spec', 'a', 2), ('spec', 'a', 1)], 20.0, 1, 1, delays=False, early_user=False, time_dev=False)
        params = dict(sc.params)
        params['user'] = [(1.0, 'create', 'a'), (10.0, 'spec', 'a', 2), (10.0 + back_after, 'spec', 'a', 1)]
        params['horizon'] = 12.0 + SETTLE + 16
        hist.append(C03Scenario(**params))
    crash = [build(h, 20.0, hset, 1, kills=True, delays=False, early_user=False, time_dev=False)
             for h in histories(2 if tier == 'quick' else 3) for hset in (1, 2, 3)]
    timing = [build(h, 4.0, hset, 1, grid=2.0) for h in histories(1 if tier == 'quick' else 2) for hset in (1, 2, 3)]
    return hist, crash, timing


def tie_scenarios() -> list[C03Scenario]:
    """The last change arrives in the very instant the object's idle worker retires (queueing idle_timeout 5.0 after its last
    event): every order of {timeout fires, edit is made, event is delivered, loop steps} is a schedule (coincide=True)."""
    out = []
    for h in ([('spec', 'a', 2)], [('label', 'a', 'l', 'v')], [('spec', 'a', 2), ('spec', 'a', 1)], [('spec', 'a', 2), ('delete', 'a')]):
        out.append(build(h, 5.0, 1, 0, coincide=True, delays=False, time_dev=False))
    return out


def relist_scenarios() -> list[C03Scenario]:
    """The watch is re-listed (410 Gone) or reconnected around an edit, with a raw-event handler whose patch changes nothing: the explorer
    places the re-listing between the operator's own PATCH and its echo (the awaited version never comes, the listed one is newer)."""
    out = []
    for h in ([('spec', 'a', 2), ('relist',), ('status', 'a', 1)], [('spec', 'a', 2), ('status', 'a', 1), ('relist',)], [('spec', 'a', 2), ('relist',)],
              [('relist',), ('spec', 'a', 2)], [('spec', 'a', 2), ('reconnect',), ('status', 'a', 1)]):
        for fails in (0, 1):
            out.append(build(h, 0.0, 8, fails, grid=1.0))
    return out


def run(tier: str, seed: int) -> CheckResult:
    hist, crash, timing = scenarios(tier)
    ties = tie_scenarios()
    if tier == 'quick':
        groups = [('histories', hist, 0, 60.0), ('crash-points', crash, 1, 40.0), ('timing', timing, 1, 40.0), ('idle-worker-tie', ties, 2, 30.0), ('relist-inside-the-barrier', relist_scenarios(), 1, 30.0)]
    else:
        groups = [('histories', hist, 0, 600.0), ('crash-points', crash, 2, 600.0), ('timing', timing, 2, 600.0), ('idle-worker-tie', ties, 3, 300.0), ('relist-inside-the-barrier', relist_scenarios(), 2, 300.0)]
    stats, viols, info, nscen = run_groups(groups, seed=seed)
    return CheckResult(
        prop='C03', tier=tier, seed=seed, stats=stats, violations=viols, scenarios=nscen,
        bound_requested=max(g[2] for g in groups), extra={'groups': info, 'history_depth': 3 if tier == 'quick' else 4},
        rule="scenarios = every history of depth <=3 (quick) / <=4 (thorough) after the initial create over {spec a->b, spec b->a, "
             "label edit, status edit, delete, kill+restart, graceful restart, downtime with an edit inside}, in two spacings "
             "(20s: quiesces in between; 0: as fast as the operator lets the user in), 1 or 2 handlers per cause failing their "
             "first n attempts; crash-point group: kill before/after the server applied each in-flight PATCH + restart; timing "
             "group: deviation-bounded search; the oracle is evaluated at a horizon 40s after the last external action; "
             "non-trivial = outcome differs from the scenario's default schedule",
        assumptions=["'eventually' means by the virtual horizon (24s settle time after the last external action)",
                     "essence reference: body minus apiVersion/kind/status and all metadata except labels and non-kopf annotations"])


def scenario_from(name: str, params: dict[str, Any]) -> Scenario:
    return C03Scenario(**params)


def replay(rec: dict[str, Any]) -> int:
    sc = scenario_from(rec['scenario'], rec['params'])
    env = execute(sc, rec['labels'])
    viols = getattr(env, 'violations', [])
    for t, k, p in env.obs:
        if k in ('call', 'write', 'user', 'kill', 'start', 'stop', 'extra'):
            brief = {kk: vv for kk, vv in p.items() if kk in ('id', 'retry', 'reason', 'rv', 'outcome', 'actor', 'verb', 'name', 'op', 'essence', 'label')}
            print(f'{t:8.3f} {k:8s} {brief}')
    for v in viols:
        print('VIOLATION', v.kind, v.message, v.signature)
    return 1 if viols else 0
