"""
C15 Exactly the handlers whose declared criteria hold are invoked.

Part 1 (inputs x configurations, bounded-exhaustive): every handler declaration over a small criteria
alphabet x every object / old / new state over the same alphabet is given to the real registries
(get_handlers / prematch / requires_finalizer), and compared with `filters_ref`, an executable reading
of docs/filters.rst. Duplicate registrations are invoked once per id.
Part 2 (closed loop, "stealth"): objects matched by no handler get no write at all from the operator.
The property's "plus random larger ones" is sampling (another family) and is not done.
"""
from __future__ import annotations

import itertools
import json
import logging
from typing import Any

import kopf
from kopf._cogs.structs import bodies, dicts, diffs, patches
from kopf._core.intents import causes, registries

from kv.explorer import Env, Scenario, Stats, Violation, execute
from kv.harness.change import ChangeScenario
from kv.harness.op import resource_of
from kv.runner import CheckResult, run_groups
from kv.world import KEX

ABSENT, PRESENT = kopf.ABSENT, kopf.PRESENT
_A = object()   # "absent" in the reference

CRITERIA = {
    'none': None,
    'lit': 'x',
    'present': PRESENT,
    'absent': ABSENT,
    'cb': (lambda v, **_: v == 'x'),
}


def crit_ok(name: str, value: Any) -> bool:
    """Does a (possibly absent) value satisfy the named criterion? (docs/filters.rst)"""
    if name == 'none':
        return True
    if name == 'lit':
        return value is not _A and value == 'x'
    if name == 'present':
        return value is not _A
    if name == 'absent':
        return value is _A
    if name == 'cb':
        return (None if value is _A else value) == 'x'
    raise ValueError(name)


def resolve(d: Any, path: tuple[str, ...]) -> Any:
    cur = d
    for k in path:
        if not isinstance(cur, dict) or k not in cur:
            return _A
        cur = cur[k]
    return cur


FIELD_STATES = {'absent': _A, 'x': 'x', 'y': 'y', 'nullparent': '#nullparent', 'strparent': '#strparent'}


def make_spec(field: tuple[str, ...] | None, state: str) -> dict:
    """A body fragment in which `field` is in the given state."""
    if field is None or state == 'absent':
        return {'spec': {'other': 1}}
    if state == 'nullparent':
        return {'spec': None} if len(field) == 2 else {'spec': {field[1]: None}}
    if state == 'strparent':
        return {'spec': 'text'} if len(field) == 2 else {'spec': {field[1]: 'text'}}
    d: dict = {}
    cur = d
    for k in field[:-1]:
        cur = cur.setdefault(k, {})
    cur[field[-1]] = state
    d.setdefault('spec', {})
    if isinstance(d['spec'], dict):
        d['spec'].setdefault('other', 1)
    return d


def filters_ref(h: dict, sit: dict) -> bool:
    """An executable reading of docs/filters.rst: is handler declaration `h` invoked in situation `sit`?"""
    kind = h['kind']
    if kind in ('create', 'update', 'delete') and sit.get('reason') != kind:
        return False
    if kind == 'resume':
        if not sit.get('initial'):
            return False
        if sit.get('deleted') and not h.get('deleted'):
            return False
    if kind == 'field' and sit.get('reason') is None:
        return False
    for crit, meta in ((h['labels'], sit['labels']), (h['annotations'], sit['annotations'])):
        if not crit_ok(crit, meta):
            return False
    field = h['field']
    if field is not None:
        if kind in ('update', 'field'):
            old, new = sit['field_old'], sit['field_new']
            if old is _A and new is _A:
                return False
            if not (old is not new if (old is _A or new is _A) else old != new):
                return False     # the field is not affected
            v = h['value']
            if v == 'none' and h['old'] == 'none' and h['new'] == 'none':
                pass
            elif v != 'none' and not (crit_ok(v, old) or crit_ok(v, new)):
                return False
            if not crit_ok(h['old'], old) or not crit_ok(h['new'], new):
                return False
        else:
            cur = sit['field_new']
            v = h['value'] if h['value'] != 'none' else 'present'
            if not crit_ok(v, cur):
                return False
    if h['when'] == 'false':
        return False
    return True


def declare(registry: kopf.OperatorRegistry, h: dict, hid: str) -> None:
    async def fn(**_: Any) -> None:
        return None
    fn.__name__ = fn.__qualname__ = hid
    kw: dict[str, Any] = {}
    if h['labels'] != 'none':
        kw['labels'] = {'lbl': CRITERIA[h['labels']]}
    if h['annotations'] != 'none':
        kw['annotations'] = {'ann': CRITERIA[h['annotations']]}
    if h['field'] is not None:
        kw['field'] = '.'.join(h['field'])
        if h['value'] != 'none':
            kw['value'] = CRITERIA[h['value']]
        if h.get('old', 'none') != 'none':
            kw['old'] = CRITERIA[h['old']]
        if h.get('new', 'none') != 'none':
            kw['new'] = CRITERIA[h['new']]
    if h['when'] != 'none':
        kw['when'] = (lambda **_: True) if h['when'] == 'true' else (lambda **_: False)
    kind = h['kind']
    if kind == 'resume' and h.get('deleted'):
        kw['deleted'] = True
    if kind in ('daemon', 'timer'):
        deco = getattr(kopf, kind)
        if kind == 'timer':
            kw['interval'] = 10
    else:
        deco = getattr(kopf.on, kind)
    import warnings
    with warnings.catch_warnings():
        warnings.simplefilter('ignore')
        deco('kopfexamples', id=hid, registry=registry, **kw)(fn)


def handler_space(tier: str) -> list[dict]:
    out = []
    fields = [None, ('spec', 'f'), ('spec', 'g', 'h')]
    kinds = ['create', 'update', 'delete', 'resume', 'field', 'event', 'daemon', 'timer', 'index']
    crit = list(CRITERIA)
    for kind in kinds:
        for labels, anns in itertools.product(crit, ['none', 'lit', 'absent'] if tier == 'quick' else crit):
            for field in fields:
                if kind == 'field' and field is None:
                    continue
                values = ['none'] if field is None else crit
                for value in values:
                    oldnew = [('none', 'none')]
                    if field is not None and kind in ('update', 'field') and value == 'none':
                        oldnew = list(itertools.product(crit, crit))
                    for old, new in oldnew:
                        for when in (('none',) if (labels != 'none' and anns != 'none') else ('none', 'true', 'false')):
                            if tier == 'quick' and field == ('spec', 'g', 'h') and (labels != 'none' or anns != 'none'):
                                continue
                            out.append(dict(kind=kind, labels=labels, annotations=anns, field=field, value=value,
                                            old=old, new=new, when=when))
    out.append(dict(kind='resume', labels='none', annotations='none', field=None, value='none', old='none', new='none', when='none', deleted=True))
    return out


def situations(h: dict) -> list[dict]:
    """Object / old / new states relevant for this declaration."""
    metas = [_A, 'x', '']
    out = []
    lbls = metas if h['labels'] != 'none' else ['x']
    anns = metas if h['annotations'] != 'none' else [_A]
    fstates = list(FIELD_STATES) if h['field'] is not None else ['absent']
    kind = h['kind']
    if kind in ('event', 'daemon', 'timer', 'index'):
        for l, a, fn in itertools.product(lbls, anns, fstates):
            out.append(dict(family=kind, labels=l, annotations=a, fnew=fn, fold=fn))
        return out
    reasons = {'create': ['create', 'update'], 'update': ['update', 'create'], 'delete': ['delete', 'update'],
               'resume': ['resume', 'update', 'create', 'delete'], 'field': ['update', 'create', 'delete', 'resume']}[kind]
    for reason in reasons:
        for l, a in itertools.product(lbls, anns):
            for fo, fn in itertools.product(fstates, fstates):
                if reason == 'create' and fo != 'absent':
                    continue          # nothing was there before a creation
                if reason in ('resume', 'delete') and fo != fn:
                    continue          # nothing essential differs on resuming / deletion
                if reason == 'update' and fo == fn and h['field'] is not None and len(fstates) > 1 and False:
                    continue
                for initial in ((False, True) if kind == 'resume' or reason == 'resume' else (False,)):
                    if reason == 'resume' and not initial:
                        continue
                    out.append(dict(family='changing', reason=reason, labels=l, annotations=a, fold=fo, fnew=fn,
                                    initial=initial, deleted=(reason == 'delete')))
    return out


def evaluate(h: dict, s: dict, reg: kopf.OperatorRegistry, resource: Any) -> tuple[bool, bool]:
    """-> (invoked by the real registry, expected by the reference)"""
    field = h['field']
    meta: dict[str, Any] = {'name': 'a', 'namespace': 'ns', 'uid': 'u'}
    if s['labels'] is not _A:
        meta['labels'] = {'lbl': s['labels']}
    if s['annotations'] is not _A:
        meta['annotations'] = {'ann': s['annotations']}
    if s.get('deleted'):
        meta['deletionTimestamp'] = '2030-01-01T00:00:00Z'
        meta['finalizers'] = ['kopf.zalando.org/KopfFinalizerMarker']
    new_frag = make_spec(field, s['fnew'])
    old_frag = make_spec(field, s['fold'])
    raw = {'apiVersion': 'kopf.dev/v1', 'kind': 'KopfExample', 'metadata': meta, **new_frag}
    body = bodies.Body(raw)
    logger = logging.getLogger('kv')
    sit = dict(labels=s['labels'], annotations=s['annotations'],
               field_new=resolve(new_frag, field) if field else _A,
               field_old=resolve(old_frag, field) if field else _A)
    if s['family'] == 'changing':
        ess_meta = {k: v for k, v in meta.items() if k in ('labels', 'annotations')}
        new_ess = dict(new_frag, **({'metadata': ess_meta} if ess_meta else {}))
        old_ess = None if s['reason'] == 'create' else dict(old_frag, **({'metadata': ess_meta} if ess_meta else {}))
        if s['reason'] == 'create':
            sit['field_old'] = _A
        cause = causes.ChangingCause(
            resource=resource, indices={}, logger=logger, patch=patches.Patch(), body=body, memo=None,  # type: ignore[arg-type]
            initial=s['initial'], reason=causes.Reason(s['reason']), diff=diffs.diff(old_ess, new_ess), old=old_ess, new=new_ess)  # type: ignore[arg-type]
        got = [x.id for x in reg._changing.get_handlers(cause)]
        sit.update(reason=s['reason'], initial=s['initial'], deleted=s.get('deleted'))
    elif s['family'] == 'event':
        cause2 = causes.WatchingCause(resource=resource, indices={}, logger=logger, patch=patches.Patch(), body=body, memo=None,  # type: ignore[arg-type]
                                      type='MODIFIED', event={'type': 'MODIFIED', 'object': raw})  # type: ignore[typeddict-item]
        got = [x.id for x in reg._watching.get_handlers(cause2)]
    elif s['family'] == 'index':
        cause3 = causes.IndexingCause(resource=resource, indices={}, logger=logger, patch=patches.Patch(), body=body, memo=None)  # type: ignore[arg-type]
        got = [x.id for x in reg._indexing.get_handlers(cause3)]
    else:
        cause4 = causes.SpawningCause(resource=resource, indices={}, logger=logger, patch=patches.Patch(), body=body, memo=None, reset=False)  # type: ignore[arg-type]
        got = [x.id for x in reg._spawning.get_handlers(cause4)]
    return bool(got), filters_ref(h, sit)


def describe(h: dict, s: dict) -> str:
    hs = {k: ('.'.join(v) if isinstance(v, tuple) else v) for k, v in h.items() if v not in ('none', None)}
    ss = {k: ('<absent>' if v is _A else v) for k, v in s.items()}
    return f"handler {hs} in situation {ss}"


def classify(h: dict, s: dict, got: bool, want: bool) -> dict[str, Any]:
    """Signature of a disagreement. One known class: a create/resume/delete handler (which the docs say
    checks the resource 'in its current --and only-- state') is selected because the OLD side of the
    change (or the absence of any old state, for creations) satisfies its field/value criterion."""
    field = h['field']
    if got and not want and field is not None and h['kind'] in ('create', 'resume', 'delete') and s['family'] == 'changing':
        old = _A if s['reason'] == 'create' else resolve(make_spec(field, s['fold']), field)
        v = h['value'] if h['value'] != 'none' else 'present'
        others_ok = crit_ok(h['labels'], s['labels']) and crit_ok(h['annotations'], s['annotations']) and h['when'] != 'false'
        if others_ok and crit_ok(v, old):
            return dict(kind='wrong-selection', direction='spurious', cls='non-update-handler-matches-old-side')
    return dict(kind='wrong-selection', handler_kind=h['kind'], direction='spurious' if got else 'missed', cls='other',
                value=h['value'], old=h['old'], new=h['new'], family=s['family'], reason=s.get('reason'))


def table(tier: str, stats: Stats) -> list[Violation]:
    viols: dict[str, Violation] = {}
    resource = resource_of(KEX)
    for h in handler_space(tier):
        reg = kopf.OperatorRegistry()
        declare(reg, h, 'h')
        for s in situations(h):
            try:
                got, want = evaluate(h, s, reg, resource)
            except Exception as e:
                v = Violation('C15', 'matching-raises', f"{describe(h, s)}: {type(e).__name__}: {e}",
                              dict(kind='matching-raises', exc=type(e).__name__, handler_kind=h['kind'], fnew=s.get('fnew'), fold=s.get('fold')),
                              scenario='table', labels=None)  # type: ignore[arg-type]
                viols.setdefault(v.key(), v)
                continue
            stats.executions += 1
            stats.states.add(hash(repr(sorted((k, repr(v)) for k, v in s.items()))))
            stats.transitions.add(hash((repr(h), repr(s))))
            if got:
                stats.nontrivial.add(hash((repr(h), repr(s))))
            if got != want:
                v = Violation('C15', 'wrong-selection',
                              f"{describe(h, s)}: the registry {'selects' if got else 'does not select'} it, docs/filters.rst says it "
                              f"{'must' if want else 'must not'} be invoked", classify(h, s, got, want), scenario='table', labels=None)  # type: ignore[arg-type]
                viols.setdefault(v.key(), v)
    if len(stats.samples) < 4:
        stats.samples.append({'handler_declarations': len(handler_space(tier)), 'example': describe(handler_space(tier)[77], situations(handler_space(tier)[77])[0])})
    return list(viols.values())


def selectors(stats: Stats) -> list[Violation]:
    """The resource selector of a handler (docs/resources.rst): which of the cluster's resources does a declaration cover? In particular
    the core group is a group of its own (''), not a wildcard; an unnamed version means the preferred one."""
    from kopf._cogs.structs import references
    viols: dict[str, Violation] = {}

    def res(group: str, version: str, plural: str, kind: str, preferred: bool = True, **kw: Any) -> Any:
        return references.Resource(group=group, version=version, plural=plural, kind=kind, singular=kind.lower(), shortcuts=frozenset(kw.get('short', ())),
                                   categories=frozenset(kw.get('cat', ())), subresources=frozenset(), namespaced=True, preferred=preferred, verbs=frozenset({'list', 'watch', 'patch'}))
    universe = [res('', 'v1', 'services', 'Service', short=('svc',)), res('serving.knative.dev', 'v1', 'services', 'Service', short=('ksvc',), cat=('all',)),
                res('', 'v1', 'pods', 'Pod', cat=('all',)), res('metrics.k8s.io', 'v1', 'pods', 'PodMetrics'),
                res('kopf.dev', 'v1', 'kopfexamples', 'KopfExample', short=('kex',)), res('kopf.dev', 'v1beta1', 'kopfexamples', 'KopfExample', preferred=False, short=('kex',)),
                res('other.dev', 'v1', 'kopfexamples', 'KopfExample')]
    # (how the user writes it, the (group, version, name) it stands for; None = any group / the preferred version)
    forms: list[tuple[tuple, dict, tuple[str | None, str | None, str]]] = []
    for name in ('services', 'pods', 'kopfexamples', 'svc', 'kex', 'Service', 'service'):
        forms.append(((name,), {}, (None, None, name)))
        forms.append((('v1', name), {}, ('', 'v1', name)))
        forms.append((('', 'v1', name), {}, ('', 'v1', name)))
        for g in ('kopf.dev', 'serving.knative.dev', 'metrics.k8s.io'):
            forms.append(((g, name), {}, (g, None, name)))
            forms.append(((f'{g}/v1', name), {}, (g, 'v1', name)))
            forms.append(((g, 'v1', name), {}, (g, 'v1', name)))
            forms.append(((g, 'v1beta1', name), {}, (g, 'v1beta1', name)))
    for plural in ('services', 'pods', 'kopfexamples'):
        forms.append(((), dict(group='', plural=plural), ('', None, plural)))
        forms.append(((), dict(group='', version='v1', plural=plural), ('', 'v1', plural)))
        forms.append(((), dict(plural=plural), (None, None, plural)))
    for args, kwargs, (g, v, name) in forms:
        try:
            sel = references.Selector(*args, **kwargs)
        except Exception as e:
            v0 = Violation('C15', 'selector-rejected', f"Selector{args}{kwargs} is rejected: {type(e).__name__}: {e}", dict(kind='selector-rejected'), scenario='table', labels=None)  # type: ignore[arg-type]
            viols.setdefault(v0.key(), v0)
            continue
        for r in universe:
            stats.executions += 1
            by_name = name in {r.plural, r.kind, r.singular} | set(r.shortcuts) if not kwargs else name == r.plural
            want = (g is None or g == r.group) and ((v is None and r.preferred) or v == r.version) and by_name
            got = bool(sel.check(r))
            key = (repr(args), repr(sorted(kwargs.items())), r.group, r.version, r.plural)
            stats.transitions.add(hash(key))
            if want:
                stats.nontrivial.add(hash(key))
            if got != want:
                written = ', '.join([repr(a) for a in args] + [f'{k}={val!r}' for k, val in kwargs.items()])
                v1 = Violation('C15', 'wrong-selection', f"a handler declared for ({written}) {'covers' if got else 'does not cover'} the resource "
                                                         f"{r.plural}.{r.version}.{r.group or '(core)'}; it stands for group={g!r} version={v!r} name={name!r}",
                               dict(kind='wrong-selection', cls='resource-selector', direction='spurious' if got else 'missed',
                                    core=(g == '')), scenario='table', labels=None)  # type: ignore[arg-type]
                viols.setdefault(v1.key(), v1)
    return list(viols.values())


def multikey(stats: Stats) -> list[Violation]:
    """Label / annotation criteria with TWO keys (every ordered pair of criterion kinds) x every state of the two keys:
    all criteria have to hold, whatever their order in the declaration; for every family of handlers."""
    viols: dict[str, Violation] = {}
    resource = resource_of(KEX)
    logger = logging.getLogger('kv')
    crits = [c for c in CRITERIA if c != 'none']
    metas = [_A, 'x', '']

    async def fn(**_: Any) -> None:
        return None
    for where in ('labels', 'annotations'):
        for c1, c2 in itertools.product(crits, crits):
            for kind in ('create', 'event', 'daemon', 'index'):
                reg = kopf.OperatorRegistry()
                deco = getattr(kopf, kind) if kind in ('daemon', 'index') else getattr(kopf.on, kind)
                import warnings
                with warnings.catch_warnings():
                    warnings.simplefilter('ignore')
                    deco('kopfexamples', id='h', registry=reg, **{where: {'k1': CRITERIA[c1], 'k2': CRITERIA[c2]}})(fn)
                for v1, v2 in itertools.product(metas, metas):
                    d = {k: v for k, v in (('k1', v1), ('k2', v2)) if v is not _A}
                    meta: dict[str, Any] = {'name': 'a', 'namespace': 'ns', 'uid': 'u'}
                    if d:
                        meta[where] = d
                    raw = {'apiVersion': 'kopf.dev/v1', 'kind': 'KopfExample', 'metadata': meta, 'spec': {'x': 1}}
                    body = bodies.Body(raw)
                    common: dict[str, Any] = dict(resource=resource, indices={}, logger=logger, patch=patches.Patch(), body=body, memo=None)
                    if kind == 'create':
                        ess = {'spec': {'x': 1}, **({'metadata': {where: d}} if d else {})}
                        got = bool(reg._changing.get_handlers(causes.ChangingCause(
                            **common, initial=False, reason=causes.Reason.CREATE, diff=diffs.diff(None, ess), old=None, new=ess)))  # type: ignore[arg-type]
                        pre = reg._changing.prematch(causes.ChangingCause(
                            **common, initial=False, reason=causes.Reason.CREATE, diff=diffs.diff(None, ess), old=None, new=ess))  # type: ignore[arg-type]
                    elif kind == 'event':
                        got = bool(reg._watching.get_handlers(causes.WatchingCause(**common, type='MODIFIED', event={'type': 'MODIFIED', 'object': raw})))  # type: ignore[arg-type,typeddict-item]
                        pre = got
                    elif kind == 'index':
                        got = bool(reg._indexing.get_handlers(causes.IndexingCause(**common)))  # type: ignore[arg-type]
                        pre = got
                    else:
                        got = bool(reg._spawning.get_handlers(causes.SpawningCause(**common, reset=False)))  # type: ignore[arg-type]
                        pre = reg._spawning.requires_finalizer(causes.SpawningCause(**common, reset=False), excluded=set())  # type: ignore[arg-type]
                    want = crit_ok(c1, v1) and crit_ok(c2, v2)
                    stats.executions += 1
                    stats.transitions.add(hash(('multikey', where, c1, c2, kind, repr(v1), repr(v2))))
                    if got:
                        stats.nontrivial.add(hash(('multikey', where, c1, c2, kind, repr(v1), repr(v2))))
                    for what, val in (('selection', got), ('prematch/finalizer', pre)):
                        if val != want:
                            v = Violation('C15', 'wrong-selection',
                                          f"{kind} handler with {where}={{k1: {c1}, k2: {c2}}} on an object with k1={'<absent>' if v1 is _A else repr(v1)}, "
                                          f"k2={'<absent>' if v2 is _A else repr(v2)}: {what} says {val}, all criteria hold = {want}",
                                          dict(kind='wrong-selection', cls='multi-key', where=where, direction='spurious' if val else 'missed', what=what),
                                          scenario='table', labels=None)  # type: ignore[arg-type]
                            viols.setdefault(v.key(), v)
    return list(viols.values())


def duplicates(stats: Stats) -> list[Violation]:
    """One function registered twice under the same id is invoked once; under different ids - once per id."""
    out: list[Violation] = []
    resource = resource_of(KEX)
    raw = {'apiVersion': 'kopf.dev/v1', 'kind': 'KopfExample', 'metadata': {'name': 'a', 'uid': 'u'}, 'spec': {'f': 'x'}}
    body = bodies.Body(raw)

    async def fn(**_: Any) -> None:
        return None
    cases = []
    r1 = kopf.OperatorRegistry()
    kopf.on.create('kopfexamples', id='same', registry=r1)(fn)
    kopf.on.create('kopfexamples', id='same', registry=r1, labels={'l': ABSENT})(fn)
    cases.append(('same fn, same id, twice', r1, 'create', False, ['same']))
    r2 = kopf.OperatorRegistry()
    kopf.on.create('kopfexamples', id='one', registry=r2)(fn)
    kopf.on.create('kopfexamples', id='two', registry=r2)(fn)
    cases.append(('same fn, two ids', r2, 'create', False, ['one', 'two']))
    r3 = kopf.OperatorRegistry()
    kopf.on.resume('kopfexamples', id='both', registry=r3)(fn)
    kopf.on.create('kopfexamples', id='both', registry=r3)(fn)
    cases.append(('create+resume stacked, creation noticed at startup', r3, 'create', True, ['both']))
    cases.append(('create+resume stacked, plain creation', r3, 'create', False, ['both']))
    r4 = kopf.OperatorRegistry()
    kopf.on.update('kopfexamples', id='f', field='spec.f', registry=r4)(fn)
    kopf.on.update('kopfexamples', id='f', field='spec.g', registry=r4)(fn)
    cases.append(('same fn, two fields (ids get the field suffix)', r4, 'update', False, ['f/spec.f', 'f/spec.g']))
    for name, reg, reason, initial, want in cases:
        old = None if reason == 'create' else {'spec': {'f': 'y', 'g': 1}}
        new = {'spec': {'f': 'x'}} if reason == 'create' else {'spec': {'f': 'x', 'g': 2}}
        cause = causes.ChangingCause(resource=resource, indices={}, logger=logging.getLogger('kv'), patch=patches.Patch(), body=body, memo=None,  # type: ignore[arg-type]
                                     initial=initial, reason=causes.Reason(reason), diff=diffs.diff(old, new), old=old, new=new)  # type: ignore[arg-type]
        got = [h.id for h in reg._changing.get_handlers(cause)]
        stats.executions += 1
        if sorted(got) != sorted(want):
            out.append(Violation('C15', 'duplicates', f"{name}: selected {got}, expected {want}", dict(kind='duplicates', case=name),
                                 scenario='table', labels=None))  # type: ignore[arg-type]
    # one function stacked twice under ONE id with DIFFERENT criteria (labels a / labels b; when-callbacks), in both orders:
    # invoked once if either declaration holds, never if none does - and the object is (pre)matched exactly then.
    for where in ('labels', 'annotations', 'when'):
        for order in (0, 1):
            reg = kopf.OperatorRegistry()
            decls: list[dict[str, Any]] = [{where: {'a': 'x'}}, {where: {'b': 'x'}}] if where != 'when' else \
                [{'when': lambda labels, **_: labels.get('a') == 'x'}, {'when': lambda labels, **_: labels.get('b') == 'x'}]
            for kw in (decls if order == 0 else decls[::-1]):
                kopf.on.create('kopfexamples', id='stacked', registry=reg, **kw)(fn)
            for has_a, has_b in itertools.product((False, True), repeat=2):
                d = {k: 'x' for k, on in (('a', has_a), ('b', has_b)) if on}
                meta: dict[str, Any] = {'name': 'a', 'uid': 'u'}
                if d:
                    meta['labels' if where == 'when' else where] = d
                raw2 = {'apiVersion': 'kopf.dev/v1', 'kind': 'KopfExample', 'metadata': meta, 'spec': {'f': 'x'}}
                ess = {'spec': {'f': 'x'}, **({'metadata': {('labels' if where == 'when' else where): d}} if d else {})}
                cause = causes.ChangingCause(resource=resource, indices={}, logger=logging.getLogger('kv'), patch=patches.Patch(), body=bodies.Body(raw2),  # type: ignore[arg-type]
                                             memo=None, initial=False, reason=causes.Reason.CREATE, diff=diffs.diff(None, ess), old=None, new=ess)  # type: ignore[arg-type]
                got = [h.id for h in reg._changing.get_handlers(cause)]
                pre = reg._changing.prematch(cause)
                fin = reg._changing.requires_finalizer(cause)
                stats.executions += 1
                want_n = 1 if (has_a or has_b) else 0
                if len(got) != want_n or pre != bool(want_n) or fin:
                    out.append(Violation('C15', 'duplicates',
                                         f"one function stacked twice under id 'stacked' with {where} criteria on a / on b (order {order}); object has a={has_a}, b={has_b}: "
                                         f"selected {got}, prematch={pre}, requires_finalizer={fin}; expected {want_n} invocation(s), prematch={bool(want_n)}",
                                         dict(kind='duplicates', case='stacked-different-criteria', where=where,
                                              what='selection' if len(got) != want_n else ('prematch' if pre != bool(want_n) else 'finalizer')),
                                         scenario='table', labels=None))  # type: ignore[arg-type]
    return out


class StealthScenario(ChangeScenario):
    name = 'c15-stealth'
    prop = 'C15'

    def check(self, env: Env) -> list[Violation]:
        out: list[Violation] = []
        if env.end_reason in ('stall', 'livelock', 'step-budget', 'deadlock'):
            return [self.viol(env, 'no-progress', f'execution ended with {env.end_reason}', end=env.end_reason)]
        unmatched = set(self.params['unmatched'])
        for w in self.op_writes(env):
            if w['name'] in unmatched:
                out.append(self.viol(env, 'stealth-broken', f"t={w['t']}: the operator wrote to object {w['name']} that no handler matches: "
                                                            f"{w['verb']}", clause='stealth'))
        calls = [p for _, k, p in env.obs if k == 'call' and p.get('name') in unmatched]
        if calls:
            out.append(self.viol(env, 'unmatched-invoked', f"handlers {sorted({p['id'] for p in calls})} invoked for unmatched objects", clause='exact'))
        # an object that USED to match and does not any more is nobody's business either: the finalizer it was given goes away, and its deletion
        # is not held up (judged where the world is quiet: the last edit is long ago, nothing is owed)
        t_last = max([t for t, k, _ in env.obs if k in ('user', 'kill', 'start')] + [0.0])
        if not env.owes() and env.end_reason == 'horizon' and env.now >= t_last + 8 and not any(c.split(':')[0] == 'time' for _, c in env.deviations) \
                and not self.carveouts(env) and env.memo.get('pipeline') is not None:
            from kv.harness.change import FINALIZER
            for n in self.params.get('unmatched_later', []):
                obj = env.world.get(self.kind, 'ns', n)
                if obj is not None and FINALIZER in (obj['metadata'].get('finalizers') or []):
                    out.append(self.viol(env, 'finalizer-left-on-unmatched', f"object {n} matches no handler since t={t_last} at the latest; it still carries the framework's finalizer"
                                                                             + (" and is marked for deletion: it cannot go away" if 'deletionTimestamp' in obj['metadata'] else ""),
                                         clause='stealth', deleting='deletionTimestamp' in obj['metadata']))
        matched = {n for n in self.params['matched']} if not env.owes() else set()
        if env.deviations:
            matched -= set(self.params.get('unmatched_later', []))     # (a relabelling moved ahead of the handling: the object may never have been handled)
        for n in matched:
            if not any(p.get('name') == n for _, k, p in env.obs if k == 'call'):
                out.append(self.viol(env, 'matched-not-invoked', f"no handler was invoked for the matching object {n}", clause='exact'))
        return out


def stealth_scenarios(tier: str) -> list[StealthScenario]:
    out = []
    filters = [dict(labels={'on': 'yes'}), dict(annotations={'on': 'yes'}), dict(field='spec.x', value=1), dict(labels={'off': 'ABSENT'}),
               dict(field='spec.nope')]
    for f in filters:
        f2 = dict(f)
        if f2.get('labels') == {'off': 'ABSENT'}:
            f2['labels'] = {'off': ABSENT}
        handlers = [dict(id='c1', on='create', script=['ok'], **f2), dict(id='u1', on='update', script=['ok'], **f2),
                    dict(id='d1', on='delete', script=['ok'], **f2), dict(id='dm', on='daemon', **f2),
                    dict(id='tm', on='timer', interval=5.0, script=['ok'], **f2), dict(id='r1', on='resume', script=['ok'], **f2)]
        for which in ('labels', 'annotations', 'field', 'absent', 'nofield'):
            pass
        # object 'm' matches, object 'n' does not
        if 'labels' in f and f['labels'] == {'on': 'yes'}:
            user = [(1.0, 'create', 'n'), (1.0, 'create', 'm'), (1.5, 'label', 'm', 'on', 'yes'), (3.0, 'spec', 'n', 5), (4.0, 'label', 'n', 'other', 'v')]
        elif 'annotations' in f:
            user = [(1.0, 'create', 'n'), (1.0, 'create', 'm'), (1.5, 'annotate', 'm', 'on', 'yes'), (3.0, 'spec', 'n', 5), (4.0, 'annotate', 'n', 'other', 'v')]
        elif f.get('field') == 'spec.x':
            user = [(1.0, 'create', 'n', {'x': 2}), (1.0, 'create', 'm', {'x': 1}), (3.0, 'spec', 'n', 5), (4.0, 'label', 'n', 'other', 'v')]
        elif f.get('field') == 'spec.nope':
            user = [(1.0, 'create', 'n'), (1.0, 'create', 'm', {'nope': 1}), (3.0, 'spec', 'n', 5), (4.0, 'label', 'n', 'other', 'v')]
        else:
            user = [(1.0, 'create', 'm'), (1.0, 'createl', 'n', 'off', 'v'), (3.0, 'spec', 'n', 5)]
        user += [(6.0, 'restart'), (9.0, 'delete', 'n')]
        out.append(StealthScenario(handlers=handlers, user=user, horizon=20.0, matched=['m'], unmatched=['n'],
                                   settings={'persistence__consistency_timeout': 5.0}))
        if f.get('labels') == {'on': 'yes'}:
            # an object that matches at first (it is handled, it gets the finalizer) and is then relabelled so that nothing matches it
            # any more - with and without daemons / timers in the registry, then left alone or deleted
            for hs in (handlers, [h for h in handlers if h['on'] not in ('daemon', 'timer')], [h for h in handlers if h['on'] in ('create', 'delete')]):
                for tail in ([], [(12.0, 'delete', 'z')], [(6.0, 'delete', 'z')], [(12.0, 'restart',)], [(12.0, 'label', 'z', 'on', 'yes'), (16.0, 'label', 'z', 'on', 'no'), (20.0, 'delete', 'z')]):
                    user2 = [(1.0, 'createl', 'z', 'on', 'yes'), (1.0, 'create', 'n'), (5.0, 'label', 'z', 'on', 'no')] + tail
                    out.append(StealthScenario(handlers=hs, user=user2, horizon=max(u[0] for u in user2) + 12.0, matched=['z'], unmatched=['n'], unmatched_later=['z'],
                                               settings={'persistence__consistency_timeout': 5.0}))
    return out


class StatusFieldScenario(ChangeScenario):
    """Field criteria on a field OUTSIDE the spec (status.ready) that goes through falsy values (false, 0, ''): update/field handlers see
    both sides of every transition as they are, daemons follow the current value."""
    name = 'c15-statusfield'
    prop = 'C15'

    def check(self, env: Env) -> list[Violation]:
        if env.end_reason in ('stall', 'livelock', 'step-budget', 'deadlock'):
            return [self.viol(env, 'no-progress', f'execution ended with {env.end_reason}', end=env.end_reason)]
        if env.deviations or env.owes() or self.carveouts(env):
            return []
        out: list[Violation] = []
        values = [None] + [u[4] for u in self.params['user'] if u[1] == 'statusset']
        want_ff = [(a, b) for a, b in zip(values, values[1:]) if json.dumps(a) != json.dumps(b)]
        got_ff = [(p.get('old'), p.get('new')) for _, k, p in env.obs if k == 'call' and p['id'] == 'ff' and p['outcome'].startswith('ok')]
        if [json.dumps(x) for x in got_ff] != [json.dumps(x) for x in want_ff]:
            out.append(self.viol(env, 'wrong-selection', f"status.ready went through {values}; on.field(field='status.ready') was invoked with (old, new) = {got_ff}, "
                                                         f"the transitions are {want_ff}", cls='falsy-field-value', handler='field'))
        lo, hi = self.params['falsy'], self.params['truthy']
        want_uf = sum(1 for a, b in want_ff if json.dumps(a) == json.dumps(hi) and json.dumps(b) == json.dumps(lo))
        got_uf = sum(1 for _, k, p in env.obs if k == 'call' and p['id'] == 'uf' and p['outcome'].startswith('ok'))
        if got_uf != want_uf:
            out.append(self.viol(env, 'wrong-selection', f"status.ready went through {values}; on.update(field='status.ready', old={hi!r}, new={lo!r}) ran {got_uf} time(s), "
                                                         f"{want_uf} transition(s) match", cls='falsy-field-value', handler='update'))
        # the daemon with value=<falsy> runs exactly while the field holds that value
        spans = []
        for i, v in enumerate(values[1:]):
            if json.dumps(v) == json.dumps(lo) and json.dumps(values[i]) != json.dumps(lo):
                t0 = [u[0] for u in self.params['user'] if u[1] == 'statusset'][i]
                spans.append(t0)
        enters = [t for t, k, p in env.obs if k == 'daemon-enter' and p['id'] == 'dm']
        if len(enters) != len(spans) or any(abs(a - b) > 1e-9 for a, b in zip(enters, spans)):
            out.append(self.viol(env, 'wrong-selection', f"status.ready went through {values}; the daemon with value={lo!r} started at {enters}, the field took that value at {spans}",
                                 cls='falsy-field-value', handler='daemon'))
        return out


def statusfield_scenarios() -> list[Scenario]:
    out: list[Scenario] = []
    for lo, hi in ((False, True), (0, 1), ('', 'x'), (False, 'x')):
        for seq in ([hi, lo, hi], [lo, hi, lo], [hi, lo, lo, hi], [lo, hi]):
            handlers = [dict(id='ev', on='event', script=['ok']), dict(id='c1', on='create', script=['ok']),
                        dict(id='d1', on='delete', script=['ok']),      # the finalizer is there from the start: no extra cycles later
                        dict(id='uf', on='update', field='status.ready', old=hi, new=lo, script=['ok']),
                        dict(id='ff', on='field', field='status.ready', script=['ok']),
                        dict(id='dm', on='daemon', field='status.ready', value=lo, reaction='obeys')]
            user = [(1.0, 'create', 'm')] + [(4.0 + 4 * i, 'statusset', 'm', 'ready', v) for i, v in enumerate(seq)]
            out.append(StatusFieldScenario(handlers=handlers, user=user, horizon=4.0 + 4 * len(seq) + 15, falsy=lo, truthy=hi,
                                           settings={'persistence__consistency_timeout': 5.0}, delays=False, early_user=False, time_dev=False))
    return out


def causekind_scenarios() -> list[Scenario]:
    """'cause kind' as a criterion, in vivo: handlers of every kind (among them a resume handler that is filtered out when the process
    first sees the object and matches later) over histories with restarts; judged by C05's invocation rules, reported for C15."""
    from kv.checks import c05 as _c05

    class CauseKindScenario(_c05.C05Scenario):
        name = 'c15-causekind'
        prop = 'C15'

        def check(self, env: Env) -> list[Violation]:
            return [self.viol(env, 'wrong-selection', f"cause kind: {v.message}", cls='cause-kind', what=v.kind) for v in super().check(env)
                    if v.kind in ('resume-not-first-sight', 'kind-mismatch', 'change-on-deleting', 'resume-on-deleting', 'delete-not-held', 'no-progress',
                                  'wrong-cause', 'difference-taken-for-nothing')]
    globals()['CauseKindScenario'] = CauseKindScenario
    out: list[Scenario] = []
    for bare in (False, True):      # an object without spec/labels/annotations has an EMPTY essence: handled before is not the same as never seen
        for h in _c05.histories(3 if not bare else 2, bare):
            if (('restart',) in h or bare) and ('label', 'a', 'l', 'v') in h:
                for fro in (True, False):
                    sc = _c05.build(h, bare, 6.0, False, filtered_resume_only=fro, delays=False, early_user=False, time_dev=False)
                    out.append(CauseKindScenario(**sc.params))
    return out


class SubCriteriaScenario(ChangeScenario):
    """Sub-handlers are handlers: the ones a parent declares WITH criteria (labels, annotations, field/value, when) are invoked exactly when
    their criteria hold for the object - in the creation cycle, and in the update cycle after the object was relabelled / its field changed."""
    name = 'c15-subcriteria'
    prop = 'C15'

    def check(self, env: Env) -> list[Violation]:
        if env.end_reason in ('stall', 'livelock', 'step-budget', 'deadlock'):
            return [self.viol(env, 'no-progress', f'execution ended with {env.end_reason}', end=env.end_reason)]
        if env.deviations or env.owes() or self.carveouts(env):
            return []
        out: list[Violation] = []
        for reason, want in self.params['expected'].items():
            got = sorted({p['id'] for _, k, p in env.obs if k == 'call' and p.get('reason') == reason and '/' in p['id']})
            if got != sorted(want):
                out.append(self.viol(env, 'wrong-selection', f"sub-handlers invoked in the {reason} cycle: {got}; the declared criteria select {sorted(want)}",
                                     clause='exact', family='sub-handlers', extra=sorted(set(got) - set(want)), missing=sorted(set(want) - set(got))))
        from kv.harness.change import any_progress_keys
        obj = env.world.get(self.kind, 'ns', 'a')
        if obj is not None and any_progress_keys(obj):
            out.append(self.viol(env, 'wrong-selection', f"the cycle never closed: progress records {any_progress_keys(obj)} are left on the object", clause='exact', family='sub-handlers',
                                 extra=['cycle-open'], missing=[]))
        return out


def subcriteria_scenarios() -> list[SubCriteriaScenario]:
    subs = [dict(id='plain'), dict(id='lyes', labels={'on': 'yes'}), dict(id='lno', labels={'on': 'no'}), dict(id='labs', labels={'off': 'ABSENT'}),
            dict(id='lpre', labels={'off': 'PRESENT'}), dict(id='apre', annotations={'note': 'PRESENT'}), dict(id='wtrue', when='true'), dict(id='wfalse', when='false'),
            dict(id='fv1', field='spec.x', value=1), dict(id='fv2', field='spec.x', value=2), dict(id='fretry', labels={'on': 'no'}, script=['temp', 'ok'])]
    handlers = [dict(id='p', on='create', script=['ok']), dict(id='q', on='update', script=['ok'])]
    out = []
    # created with on=yes, x=1; then relabelled on=no (+ off=v) and x:=2
    exp_create = ['p/plain', 'p/lyes', 'p/labs', 'p/wtrue', 'p/fv1']
    exp_update = ['q/plain', 'q/lno', 'q/lpre', 'q/wtrue', 'q/fv2', 'q/fretry']
    for lc in ('asap', 'all_at_once'):
        user = [(1.0, 'createl', 'a', 'on', 'yes'), (10.0, 'label', 'a', 'off', 'v'), (20.0, 'label', 'a', 'on', 'no'), (30.0, 'spec', 'a', 2)]
        # three update cycles: judge the union per reason (the last one has every criterion of the update list true)
        out.append(SubCriteriaScenario(handlers=handlers, subs={'p': subs, 'q': subs}, lifecycle=lc, user=[user[0]], horizon=25.0,
                                       expected={'create': exp_create}, settings={'persistence__consistency_timeout': 5.0},
                                       delays=False, early_user=False, time_dev=False))
        out.append(SubCriteriaScenario(handlers=handlers, subs={'p': subs, 'q': subs}, lifecycle=lc,
                                       user=[(1.0, 'createl', 'a', 'on', 'no'), (1.0, 'noop'), (12.0, 'spec', 'a', 2)], horizon=40.0,
                                       expected={'create': ['p/plain', 'p/lno', 'p/labs', 'p/wtrue', 'p/fv1', 'p/fretry'],
                                                 'update': ['q/plain', 'q/lno', 'q/labs', 'q/wtrue', 'q/fv1', 'q/fv2', 'q/fretry']},
                                       settings={'persistence__consistency_timeout': 5.0}, delays=False, early_user=False, time_dev=False))
    return out


def run(tier: str, seed: int) -> CheckResult:
    stats = Stats()
    viols = table(tier, stats) + duplicates(stats) + multikey(stats) + selectors(stats)
    groups = [('stealth', stealth_scenarios(tier), 1 if tier == 'quick' else 2, 40.0 if tier == 'quick' else 400.0),
              ('cause-kind', causekind_scenarios(), 0, 40.0), ('falsy-values-of-a-status-field', statusfield_scenarios(), 0, 30.0), ('sub-handler-criteria', subcriteria_scenarios(), 0, 20.0)]
    st2, v2, info, nscen = run_groups(groups, seed=seed)
    table_evals = stats.executions
    stats.merge(st2)
    stats.outcomes |= stats.nontrivial
    stats.bound_completed = st2.bound_completed
    return CheckResult(
        prop='C15', tier=tier, seed=seed, stats=stats, violations=viols + v2, scenarios=nscen + 1,
        bound_requested=groups[0][2], extra={'groups': info, 'table_evaluations': table_evals, 'handler_declarations': len(handler_space(tier))},
        rule="part 1: handler kind {create,update,delete,resume,field,event,daemon,timer,index} x label criterion {none,value,PRESENT,ABSENT,"
             "callback} x annotation criterion x field {none, spec.f, spec.g.h} x value criterion x old/new criteria x when {none,true,false} "
             "(quick prunes annotation criteria to 3 and the nested field to filter-free declarations) x object states (label/annotation "
             "{absent,'x',''}; field old/new {absent,'x','y',null parent,non-mapping parent}) x cause reasons; oracle = filters_ref "
             "(docs/filters.rst); duplicates cases; part 2: closed-loop stealth scenarios (5 filter styles, matching and non-matching "
             "object, restart, deletion) with a deviation-bounded search; non-trivial = the handler is selected",
        assumptions=["the reference reads docs/filters.rst: update handlers (on.update/on.field) see both sides of the transition and need the "
                     "field to be affected; all other handlers check the current state only",
                     "the 'plus random larger ones' part of the quantifier is sampling and is not covered"])


def scenario_from(name: str, params: dict[str, Any]) -> Scenario:
    if name == 'c15-causekind':
        causekind_scenarios()
        return globals()['CauseKindScenario'](**params)
    if name == 'c15-statusfield':
        return StatusFieldScenario(**params)
    if name == 'c15-subcriteria':
        return SubCriteriaScenario(**params)
    return StealthScenario(**params)


def reverify(v: Violation) -> bool:
    if v.scenario == 'table':
        st = Stats()
        return any(x.key() == v.key() for x in table('thorough', st) + table('quick', st) + duplicates(st) + multikey(st) + selectors(st))
    from kv.runner import default_reverify
    return default_reverify(v)


def replay(rec: dict[str, Any]) -> int:
    if rec['scenario'] == 'table':
        st = Stats()
        viols = [v for v in table('thorough', st) + duplicates(st) + multikey(st) if v.signature == rec['signature']]
    else:
        env = execute(scenario_from(rec['scenario'], rec['params']), rec['labels'])
        viols = getattr(env, 'violations', [])
    for v in viols:
        print('VIOLATION', v.kind, v.message)
    return 1 if viols else 0
