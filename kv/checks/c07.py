"""
C07 Change handlers never run on a view older than the operator's own last write.

Subject: queueing.worker's expected-version tracking + the consistency wait in
process_resource_causes + application.apply, in the closed loop.
Search: two-step cycles (a progress PATCH between handlers), 0-2 foreign writes landing between
the operator's view and its PATCH, network holds that release the foreign events and the echo
at every combination of instants below/at/above the consistency timeout, idle gaps before the
cycle (same worker / fresh worker), plus a deviation-bounded search (late responses, timers first,
reordered user actions) on top.
Oracle: for every change-handler invocation at time t on view version r: with (t_p, v_p) the
latest PATCH response returned to that object's worker in this incarnation, r < v_p implies
t >= t_p + consistency_timeout. Raw-event handlers run at the instant their event is delivered.
"""
from __future__ import annotations

import itertools
from typing import Any, Iterable

from kv.explorer import Env, Scenario, Violation, execute
from kv.harness.change import ChangeScenario
from kv.runner import CheckResult, run_groups
from kv.world import Stream

TIMEOUT = 5.0


class C07Scenario(ChangeScenario):
    name = 'c07'
    prop = 'C07'

    def check(self, env: Env) -> list[Violation]:
        out: list[Violation] = []
        if env.end_reason in ('stall', 'livelock', 'step-budget'):
            return [self.viol(env, 'no-progress', f'execution ended with {env.end_reason}', end=env.end_reason)]
        timeout = self.params.get('settings', {}).get('persistence__consistency_timeout', TIMEOUT)
        post_rv = {r.rid: int(r.post['metadata']['resourceVersion']) for r in env.world.requests
                   if r.method == 'patch' and r.status == 200 and isinstance(r.post, dict)
                   and r.origin.startswith('worker for')}
        last: dict[tuple[str, str], tuple[float, int]] = {}     # (op, object name) -> (t_p, v_p)
        delivered_at: dict[tuple[str, str], float] = {}          # (name, rv) -> delivery time
        latency = any(d.startswith(('srv:delay', 'srv:fault')) for _, d in env.deviations) or env.time_while_ready or env.time_while_pending
        latency = latency or bool(self.params.get('relisted'))    # slow handlers: events wait behind a RUNNING handler (serial processing, not the barrier)
        for t, k, p in env.obs:
            if k == 'srv' and p.get('rid') in post_rv and p['verb'] in ('serve', 'respond'):
                name = p['path'].rstrip('/').split('/')[-1 if not p['path'].endswith('/status') else -2]
                last[(p['op'], name)] = (t, post_rv[p['rid']])
            elif k == 'deliver' and isinstance(p['item'], tuple) and p['item'][0] in ('ADDED', 'MODIFIED'):
                delivered_at[(p['item'][1], p['item'][2])] = t
            elif k == 'call' and p.get('reason') in ('create', 'update', 'delete', 'resume'):
                tp_vp = last.get((p['op'], p['name']))
                if tp_vp is not None:
                    tp, vp = tp_vp
                    r = int(p['rv'])
                    if r < vp and t < tp + timeout:
                        out.append(self.viol(
                            env, 'stale-view',
                            f"t={t}: {p['id']} ({p['reason']}) ran on version {r} although the operator's own PATCH "
                            f"returned version {vp} at t={tp} (timeout {timeout} not elapsed, echo not yet seen)",
                            clause='barrier'))
            elif k == 'call' and p['id'] == 'ev' and not latency:
                dt = delivered_at.get((p['name'], p['rv']))
                if dt is not None and dt != t and p.get('etype') is not None:
                    out.append(self.viol(env, 'raw-event-delayed',
                                         f"t={t}: the raw-event handler saw version {p['rv']} delivered at t={dt}",
                                         clause='not-delayed'))
        # daemons and timers are spawned in the instant their object is seen matching, barrier or not
        if not latency:
            spawned = {h['id']: h for h in self.params['handlers'] if h['on'] in ('daemon', 'timer')}
            first_match: dict[tuple[str, str, str], float] = {}
            started: dict[tuple[str, str, str], float] = {}
            for t, k, p in env.obs:
                if k == 'call' and p['id'] == 'ev' and 'deletionTimestamp' not in (p['raw'].get('metadata') or {}):
                    labels = (p['raw'].get('metadata') or {}).get('labels') or {}
                    for hid, h in spawned.items():
                        if all(labels.get(a) == b for a, b in (h.get('labels') or {}).items()):
                            first_match.setdefault((p['op'], p['uid'], hid), t)
                elif k == 'daemon-enter' and p['id'] in spawned:
                    started.setdefault((p['op'], p['uid'], p['id']), t)
                elif k == 'call' and p['id'] in spawned:
                    started.setdefault((p['op'], p['uid'], p['id']), t)
            for key, tm in first_match.items():
                ts = started.get(key)
                if tm < self.horizon - 1 and ts != tm:
                    out.append(self.viol(env, 'spawn-delayed', f"{spawned[key[2]]['on']} {key[2]}: its object was seen matching at t={tm}, "
                                                               f"it started at {ts}", clause='not-delayed', what=spawned[key[2]]['on']))
        # every delivered event must have reached the raw-event handler at all
        if not latency and any(h['id'] == 'ev' for h in self.params['handlers']):
            seen = {(p['name'], p['rv']) for _, k, p in env.obs if k == 'call' and p['id'] == 'ev'}
            for key, dt in delivered_at.items():
                if key not in seen and dt < self.horizon - 1:
                    out.append(self.viol(env, 'raw-event-missed', f"event {key} delivered at {dt} never reached the raw-event handler",
                                         clause='not-delayed'))
        return out


def scenarios(tier: str) -> tuple[list[C07Scenario], list[C07Scenario]]:
    settings = {'persistence__consistency_timeout': TIMEOUT, 'queueing__idle_timeout': 5.0}
    grid: list[C07Scenario] = []
    timing: list[C07Scenario] = []
    rel = [0.0, 0.5, 2.0, 4.5, 5.0, 5.5, 8.0] if tier == 'quick' else [0.0, 0.5, 1.0, 2.0, 3.0, 4.0, 4.5, 5.0, 5.5, 7.0, 8.0, 12.0]
    for gap in ((3.0, 8.0) if tier == 'quick' else (0.5, 3.0, 4.5, 8.0)):
        t0 = 1.0 + gap
        for nf in (0, 1, 2):
            first = {0: 'ok', 1: 'ok+status1', 2: 'ok+label1'}[nf]
            second = 'ok+status2' if nf == 2 else 'ok'
            handlers = [dict(id='c1', on='create', script=['ok']), dict(id='c2', on='create', script=['ok']),
                        dict(id='u1', on='update', script=[first]), dict(id='u2', on='update', script=[second]),
                        dict(id='u3', on='update', script=['ok']), dict(id='ev', on='event', script=['ok'])]
            user = [(1.0, 'create', 'a'), (t0, 'spec', 'a', 2)]
            for df, de in itertools.product(rel, rel):
                if de < df:
                    continue
                holds = []
                if df > 0:
                    holds.append((t0, t0 + df, 'all'))
                if de > df:
                    holds.append((t0 + df, t0 + de, 'echo'))
                # only events after the user's edit are held back (the edit itself arrives promptly)
                grid.append(C07Scenario(handlers=handlers, lifecycle='one_by_one', user=user, settings=settings,
                                        holds=holds, horizon=t0 + 20.0, gap=gap, nf=nf,
                                        delays=False, early_user=False, time_dev=False))
                if nf >= 1 and de > 2.0:
                    # the object's worker retires (idle_timeout 2 s) while the echo of its own patch is still outstanding:
                    # the barrier (5 s) outlives the worker and has to hold for its successor's first event as well
                    short_idle = dict(settings, queueing__idle_timeout=2.0)
                    grid.append(C07Scenario(handlers=handlers, lifecycle='one_by_one', user=user, settings=short_idle,
                                            holds=holds, horizon=t0 + 20.0, gap=gap, nf=nf, idle=2.0,
                                            delays=False, early_user=False, time_dev=False))
                if nf >= 1 and (df, de) in ((0.0, 2.0), (0.5, 4.5), (2.0, 5.5), (0.0, 8.0), (2.0, 2.0)):
                    # the raw-event handler writes through its patch on every event: a patch filled in by a low-level handler during
                    # the barrier must not let the change handlers through on the stale view
                    noting = [dict(h, script=['ok+seen']) if h['id'] == 'ev' else h for h in handlers]
                    grid.append(C07Scenario(handlers=noting, lifecycle='one_by_one', user=user, settings=settings,
                                            holds=holds, horizon=t0 + 20.0, gap=gap, nf=nf, ev_patches=True,
                                            delays=False, early_user=False, time_dev=False))
                    # ... and a note that follows the foreign status edits: a held-back cycle makes another own write to wait for
                    noting2 = [dict(h, script=['ok+note']) if h['id'] == 'ev' else h for h in handlers]
                    grid.append(C07Scenario(handlers=noting2, lifecycle='one_by_one', user=user, settings=settings,
                                            holds=holds, horizon=t0 + 20.0, gap=gap, nf=nf, ev_patches=True, ev_notes=True,
                                            delays=False, early_user=False, time_dev=False))
                if nf == 0 and de > 1.0:
                    # a foreign label edit arrives while the barrier is up (the echo is still held): the daemon and the timer
                    # it makes match start right then, the change handlers wait
                    spawn = handlers + [dict(id='d1', on='delete', script=['ok']),    # so that the finalizer is there already (no extra PATCH)
                                        dict(id='dm', on='daemon', reaction='obeys', labels={'go': 'yes'}),
                                        dict(id='tm', on='timer', interval=50.0, script=['ok'], labels={'go': 'yes'})]
                    grid.append(C07Scenario(handlers=spawn, lifecycle='one_by_one', user=user + [(t0 + 1.0, 'label', 'a', 'go', 'yes')],
                                            settings=settings, holds=[(t0, t0 + de, 'echo')], horizon=t0 + 20.0, gap=gap, nf=nf, spawn=True,
                                            delays=False, early_user=False, time_dev=False))
    # resource versions that gain a digit between the foreign write and the operator's own patch (9 -> 10, 99 -> 100): versions are opaque,
    # "the echo" is the version the PATCH returned and nothing else
    for rv0 in list(range(0, 10)) + list(range(86, 100)):
        for nf, (df, de) in itertools.product((1, 2), ((0.0, 2.0), (0.5, 4.5), (2.0, 8.0))):
            first = {1: 'ok+status1', 2: 'ok+label1'}[nf]
            second = 'ok+status2' if nf == 2 else 'ok'
            handlers = [dict(id='c1', on='create', script=['ok']), dict(id='c2', on='create', script=['ok']),
                        dict(id='u1', on='update', script=[first]), dict(id='u2', on='update', script=[second]),
                        dict(id='u3', on='update', script=['ok']), dict(id='ev', on='event', script=['ok'])]
            t0 = 4.0
            holds = ([(t0, t0 + df, 'all')] if df > 0 else []) + [(t0 + df, t0 + de, 'echo')]
            grid.append(C07Scenario(handlers=handlers, lifecycle='one_by_one', user=[(1.0, 'create', 'a'), (t0, 'spec', 'a', 2)], settings=settings,
                                    holds=holds, horizon=t0 + 20.0, gap=3.0, nf=nf, rv0=rv0, delays=False, early_user=False, time_dev=False))
    # the watch is re-listed (410 Gone) or reconnected while a change handler still runs: the listed state, taken BEFORE the handler's outcome is
    # patched, waits in the object's queue behind the handler and is looked at after the PATCH - a view older than the operator's own write
    for what, when, lc in itertools.product(('relist', 'reconnect'), (1.5, 2.5, 3.0), ('one_by_one', 'asap')):
        handlers = [dict(id='c1', on='create', script=['ok~2']), dict(id='c2', on='create', script=['ok']),
                    dict(id='u1', on='update', script=['ok~2']), dict(id='u2', on='update', script=['ok']), dict(id='ev', on='event', script=['ok'])]
        grid.append(C07Scenario(handlers=handlers, lifecycle=lc, user=[(1.0, 'create', 'a'), (when, what), (10.0, 'spec', 'a', 2), (9.0 + when, what)], settings=settings,
                                horizon=30.0, relisted=True, delays=False, early_user=False, time_dev=False))
        grid.append(C07Scenario(handlers=handlers, lifecycle=lc, user=[(1.0, 'create', 'a'), (when, what), (when, 'status', 'a', 1)], settings=settings,
                                holds=[(when, when + 4.0, 'echo')], horizon=30.0, relisted=True, delays=False, early_user=False, time_dev=False))
    # timing search on a few representatives: late responses, timers first, user edits at explorer-chosen points
    for nf, lc in itertools.product((0, 1), ('one_by_one', 'asap')):
        first = {0: 'ok', 1: 'ok+status1'}[nf]
        handlers = [dict(id='c1', on='create', script=['ok']), dict(id='c2', on='create', script=['temp2', 'ok']),
                    dict(id='u1', on='update', script=[first]), dict(id='u2', on='update', script=['ok']),
                    dict(id='ev', on='event', script=['ok'])]
        user = [(1.0, 'create', 'a'), (1.5, 'status', 'a', 5), (4.0, 'spec', 'a', 2), (4.0, 'label', 'a', 'l', 'v')]
        timing.append(C07Scenario(handlers=handlers, lifecycle=lc, user=user, settings=settings, horizon=25.0, grid=1.0))
    return grid, timing


def run(tier: str, seed: int) -> CheckResult:
    grid, timing = scenarios(tier)
    if tier == 'quick':
        groups = [('holds-grid', grid, 1, 40.0), ('timing', timing, 2, 45.0)]
    else:
        groups = [('holds-grid', grid, 1, 500.0), ('timing', timing, 3, 600.0)]
    stats, viols, info, nscen = run_groups(groups, seed=seed)
    return CheckResult(
        prop='C07', tier=tier, seed=seed, stats=stats, violations=viols, scenarios=nscen,
        bound_requested=max(g[2] for g in groups), extra={'groups': info},
        rule="scenarios = update cycle of 3 handlers under one_by_one (a progress PATCH between handlers) with 0-2 foreign "
             "writes landing between the operator's view and its PATCH, x idle gap before the cycle (same/fresh worker) x "
             "release instants of the foreign events and of the echo relative to the PATCH over a grid spanning the "
             "consistency timeout (5.0); timing group: deviation-bounded search with a 1.0 clock grid; non-trivial = "
             "observable outcome differs from the scenario's default schedule",
        assumptions=["a view's age is judged by comparing resourceVersions as integers (the World issues a global counter)",
                     "only PATCH responses returned to the object's worker task count (daemon/timer patches excluded, as the property states)"])


def scenario_from(name: str, params: dict[str, Any]) -> Scenario:
    return C07Scenario(**params)


def replay(rec: dict[str, Any]) -> int:
    from kv.checks.c02 import replay as _r
    sc = scenario_from(rec['scenario'], rec['params'])
    env = execute(sc, rec['labels'])
    viols = getattr(env, 'violations', [])
    for t, k, p in env.obs:
        if k in ('call', 'write', 'user', 'srv', 'deliver'):
            brief = {kk: vv for kk, vv in p.items() if kk in ('id', 'retry', 'reason', 'rv', 'outcome', 'actor', 'verb', 'name', 'method', 'status', 'item')}
            print(f'{t:8.3f} {k:8s} {brief}')
    for v in viols:
        print('VIOLATION', v.kind, v.message)
    return 1 if viols else 0
