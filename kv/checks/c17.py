"""
C17 In-memory indices mirror the cluster; handling waits for the initial index.

(a) the closed loop for one resource kind with an index whose function is scripted by the object's own
    content, a label filter on the index, and a raw-event probe that reads the index through the read-only
    kwarg view on every event. Every history to depth d over {set object's index code to one of
    dict-k1 / dict-k2 (re-key) / two keys / scalar / empty dict / None / temporary error / permanent error / arbitrary
    (ignored) error; label off; label on; delete; wait} over 2-3 objects whose keys collide.
    Oracle: after every processed event the index (keys, values per key, len, membership, iteration)
    equals a dictionary reference model of docs/indexing.rst.
(b) the whole operator (kopf.operator) with TWO indexed resource kinds with pre-existing objects, a change
    handler, a daemon and a timer: every interleaving (deviation-bounded) of the answers and deliveries of
    the two initial listings. Oracle: whenever a change handler / daemon / timer runs, the indices it is
    given already contain every object of both kinds that existed when the operator started.
"""
from __future__ import annotations

import asyncio
import itertools
from typing import Any

import kopf

from kv.explorer import Env, Scenario, UserAction, Violation, execute
from kv.harness.change import ChangeScenario
from kv.harness.op import Operator, add_login, make_settings
from kv.runner import CheckResult, run_groups
from kv.world import CRDS, EVENTS, KEX, KEX2, NAMESPACES

TEMP_DELAY = 2.0
CODES = ['k1', 'k2', 'two', 'scalar', 'empty', 'none', 'temp', 'perm', 'arb']


def snapshot(index: Any) -> dict[str, Any]:
    """What a handler can observe of an index through its read-only view."""
    keys = list(index)
    snap = {repr(k): sorted(map(repr, index[k])) for k in keys}
    return {'items': snap, 'len': len(index), 'contains_k1': 'k1' in index, 'contains_none': None in index,
            'lens': {repr(k): len(index[k]) for k in keys}, 'bool': bool(index)}


class IndexScenario(ChangeScenario):
    name = 'c17-index'
    prop = 'C17'

    def build_registry(self, env: Env) -> kopf.OperatorRegistry:
        reg = kopf.OperatorRegistry()

        async def idx(name: str, spec: Any, **_: Any) -> Any:
            code = spec.get('idx')
            env.log('indexed', name=name, code=code)
            if code == 'k1':
                return {'k1': name}
            if code == 'k2':
                return {'k2': name}
            if code == 'two':
                return {'k1': name, 'k2': name + '!'}
            if code == 'scalar':
                return name
            if code == 'same':
                return {'k1': 'shared'}      # a value that other objects yield too (e.g. an owner, a zone, a colour)
            if code == 'other':
                return {'k1': 'another'}
            if code == 'empty':
                return {}        # a result like any other: the object now contributes nothing
            if code == 'none':
                return None
            if code == 'temp':
                raise kopf.TemporaryError('later', delay=TEMP_DELAY)
            if code == 'perm':
                raise kopf.PermanentError('never')
            if code == 'arb':
                raise ValueError('oops')
            raise RuntimeError(code)
        async def idx_plain(name: str, **_: Any) -> Any:
            return {'all': name}          # a second index of the same kind that never fails: untouched by the first one's errors
        lone = bool(self.params.get('lone_index'))      # the index under test is the only one of its kind
        if not lone:
            kopf.index('kopfexamples', id='idx_plain', registry=reg, labels={'idx': 'yes'})(idx_plain)
        kopf.index('kopfexamples', id='idx', registry=reg, labels={'idx': 'yes'})(idx)

        probe_sleep = float(self.params.get('probe_sleep') or 0.0)

        async def probe(**kw: Any) -> None:
            env.log('probe', name=kw['name'], uid=kw.get('uid'), etype=kw['type'], rv=kw['body'].metadata.get('resourceVersion'),
                    plain=sorted(kw['idx_plain'].get('all', [])) if not lone else None, **snapshot(kw['idx']))
            if probe_sleep:
                await asyncio.sleep(probe_sleep)     # a slow raw-event handler: the object's next events pile up behind this one (a burst)
        kopf.on.event('kopfexamples', id='ev', registry=reg)(probe)
        return reg

    def _action(self, action: str, args: list[Any]) -> Any:
        K = self.kind
        if action == 'set':
            def do(env: Env) -> None:
                if env.world.get(K, 'ns', args[0]) is None:
                    env.world.create(K, 'ns', args[0], {'spec': {'idx': args[1]}, 'metadata': {'labels': {'idx': 'yes'}}})
                else:
                    env.world.merge(K, 'ns', args[0], {'spec': {'idx': args[1], 'n': env.count('n')}})
            return do
        if action == 'wait':
            return lambda env: None
        return super()._action(action, args)

    def check(self, env: Env) -> list[Violation]:
        out: list[Violation] = []
        if env.end_reason in ('stall', 'livelock', 'step-budget', 'deadlock'):
            return [self.viol(env, 'no-progress', f'execution ended with {env.end_reason}', end=env.end_reason)]
        # the reference: object name -> {key: value}; exclusions after errors
        model: dict[str, dict[Any, str]] = {}
        plain_model: dict[str, str] = {}          # the never-failing sibling index: object -> its name
        excluded_until: dict[str, float] = {}     # temporary exclusion
        excluded_forever: set[str] = set()
        raws: dict[tuple[str, str], dict] = {}
        # the event a probe reports is identified by (name, rv, type): replay the server-side object at that version
        versions: dict[tuple[str, str], dict] = {}
        for w in env.world.writes:
            for o in (w['pre'], w['post']):
                if o is not None:
                    versions[(o['metadata']['name'], o['metadata']['resourceVersion'])] = o
        for s in env.world.streams:
            pass
        for (rv, typ, obj) in env.world.events[self.kind.key]:
            versions[(obj['metadata']['name'], str(rv))] = obj
        for t, k, p in env.obs:
            if k != 'probe':
                continue
            name = p['name']
            obj = versions.get((name, p['rv']))
            if obj is None:
                continue
            label = name
            name = p.get('uid') or name     # the model is kept per OBJECT: a name can be taken again while the old object's DELETED event still waits in its queue
            if p['etype'] == 'DELETED':
                model.pop(name, None)
                excluded_until.pop(name, None)
                excluded_forever.discard(name)
                plain_model.pop(name, None)
            else:
                labels = (obj['metadata'].get('labels') or {})
                code = (obj.get('spec') or {}).get('idx')
                (plain_model.__setitem__(name, label) if labels.get('idx') == 'yes' else plain_model.pop(name, None))
                if labels.get('idx') != 'yes':
                    model.pop(name, None)
                elif name in excluded_forever:
                    model.pop(name, None)
                elif name in excluded_until and t < excluded_until[name]:
                    model.pop(name, None)
                else:
                    excluded_until.pop(name, None)
                    if code == 'k1':
                        model[name] = {'k1': label}
                    elif code == 'k2':
                        model[name] = {'k2': label}
                    elif code == 'two':
                        model[name] = {'k1': label, 'k2': label + '!'}
                    elif code == 'scalar':
                        model[name] = {None: label}
                    elif code == 'same':
                        model[name] = {'k1': 'shared'}
                    elif code == 'other':
                        model[name] = {'k1': 'another'}
                    elif code == 'empty':
                        model[name] = {}
                    elif code in ('none', 'arb'):
                        pass
                    elif code == 'temp':
                        model.pop(name, None)
                        excluded_until[name] = t + TEMP_DELAY
                    elif code == 'perm':
                        model.pop(name, None)
                        excluded_forever.add(name)
            if p.get('plain') is not None and sorted(plain_model.values()) != p['plain']:
                out.append(self.viol(env, 'index-mismatch', f"t={t}: after the {p['etype']} event of {name} (v{p['rv']}) the never-failing sibling index holds {p['plain']}, "
                                                            f"the matching live objects are {sorted(plain_model.values())}", clause='mirror', cls='sibling-index-disturbed'))
                break
            want: dict[str, list[str]] = {}
            for n, kv in model.items():
                for key, val in kv.items():
                    want.setdefault(repr(key), []).append(repr(val))
            want = {k2: sorted(v) for k2, v in want.items()}
            if p['items'] != want:
                extra = {k2 for k2 in p['items'] if k2 not in want or p['items'][k2] != want.get(k2)}
                missing = [k2 for k2 in want if k2 not in p['items']]
                cls = 'stale-values' if any(len(p['items'].get(k2, [])) > len(want.get(k2, [])) for k2 in p['items']) else \
                    ('missing-values' if missing or any(len(p['items'].get(k2, [])) < len(want.get(k2, [])) for k2 in want) else 'wrong-values')
                out.append(self.viol(env, 'index-mismatch', f"t={t}: after the {p['etype']} event of {name} (v{p['rv']}) the index holds {p['items']}, "
                                                            f"the documented rules give {want}", clause='mirror', cls=cls))
                break   # later states only repeat the divergence
            if p['len'] != len(want) or p['contains_k1'] != ('\'k1\'' in want) or p['contains_none'] != ('None' in want) or p['bool'] != bool(want) \
                    or p['lens'] != {k2: len(v) for k2, v in want.items()}:
                out.append(self.viol(env, 'index-view-inconsistent', f"t={t}: len/in/bool of the index view disagree with its items: {p}", clause='mirror'))
                break
        return out


def histories(depth: int, names: list[str], codes: list[str] | None = None) -> list[list[tuple]]:
    alphabet: list[tuple] = [('wait',)]
    for n in names:
        alphabet += [('set', n, c) for c in (codes or CODES)] + [('label', n, 'idx', 'no'), ('label', n, 'idx', 'yes'), ('delete', n)]
    out = []
    for d in range(1, depth + 1):
        for combo in itertools.product(alphabet, repeat=d):
            exists: set[str] = set()
            ok = True
            used_order = []
            for i, a in enumerate(combo):
                if a[0] == 'wait':
                    if i == 0 or combo[i - 1][0] == 'wait':
                        ok = False
                    continue
                n = a[1]
                if n not in used_order:
                    used_order.append(n)
                if a[0] == 'set':
                    exists.add(n)
                elif n not in exists:
                    ok = False
                elif a[0] == 'delete':
                    exists.discard(n)
            if used_order != names[:len(used_order)]:
                ok = False     # symmetry: objects are introduced in a fixed order
            if ok:
                out.append(list(combo))
    return out


def build_index(history: list[tuple], spacing: float, **kw: Any) -> IndexScenario:
    t = 1.0
    user: list[tuple] = []
    for a in history:
        user.append((t, *a))
        t += 3.0 if a[0] == 'wait' else spacing
    return IndexScenario(handlers=[], user=user, horizon=t + 8.0, history=[list(a) for a in history], spacing=spacing,
                         settings={'persistence__consistency_timeout': 5.0}, **kw)


# ---- (b) readiness barrier on the whole operator --------------------------------------------------------

class BarrierScenario(Scenario):
    name = 'c17-barrier'
    prop = 'C17'
    horizon = 20.0
    kinds = [NAMESPACES, EVENTS, CRDS, KEX, KEX2]

    def delays(self, env: Env, req: Any) -> bool:
        return req.method == 'get' and env.now < 5

    def allow_time_deviation(self, env: Env) -> bool:
        return True

    def setup(self, env: Env) -> None:
        same = bool(self.params.get('same_names'))    # objects of different kinds may well share their names
        two_ns = bool(self.params.get('two_namespaces'))    # the operator serves two namespaces by name: one watch (and one listing) per kind AND namespace
        if two_ns:
            env.world.create(NAMESPACES, None, 'ns', {})
            env.world.create(NAMESPACES, None, 'ns2', {})
        for i in range(self.params['n1']):
            env.world.create(KEX, 'ns2' if two_ns and i % 2 else 'ns', f'o{i}' if same else f'x{i}', {'spec': {'x': i}})
        for i in range(self.params['n2']):
            env.world.create(KEX2, 'ns', f'o{i}' if same else f'w{i}', {'spec': {'w': i}})
        reg = kopf.OperatorRegistry()
        add_login(reg, env.world)

        async def idx1(name: str, **_: Any) -> Any:
            env.log('indexed', of='x', name=name)
            if self.params.get('slow_index'):
                import asyncio
                await asyncio.sleep(self.params['slow_index'])
            return {'all': name}

        async def idx2(name: str, **_: Any) -> Any:
            env.log('indexed', of='w', name=name)
            if self.params.get('slow_index2'):
                import asyncio
                await asyncio.sleep(self.params['slow_index2'])
            return {'all': name}
        only2 = bool(self.params.get('only_second_indexed'))   # the handled kind has no index of its own
        only1 = bool(self.params.get('only_first_indexed'))    # (the mirror image: whichever kind the orchestrator visits first)
        if not only2:
            kopf.index('kopfexamples', id='idx1', registry=reg)(idx1)
        if not only1:
            kopf.index('kopfwidgets', id='idx2', registry=reg)(idx2)

        def seen(kw: dict) -> dict:
            return {'idx1': sorted(kw['idx1'].get('all', [])) if not only2 else None, 'idx2': sorted(kw['idx2'].get('all', [])) if not only1 else None}

        async def c1(**kw: Any) -> None:
            env.log('handled', id='c1', name=kw['name'], **seen(kw))

        async def tm(**kw: Any) -> None:
            env.log('handled', id='tm', name=kw['name'], **seen(kw))

        async def dm(stopped: Any, **kw: Any) -> None:
            env.log('handled', id='dm', name=kw['name'], **seen(kw))
            await stopped.wait()
        handled = 'kopfwidgets' if self.params.get('handled_second') else 'kopfexamples'   # which kind carries the handlers
        kopf.on.create(handled, id='c1', registry=reg)(c1)
        kopf.on.resume(handled, id='r1', registry=reg)(c1)
        kopf.timer(handled, id='tm', interval=3.0, registry=reg)(tm)
        kopf.daemon(handled, id='dm', registry=reg)(dm)
        if self.params.get('handlers_on_second'):
            kopf.on.create('kopfwidgets', id='c2', registry=reg)(c1)
        if two_ns:
            self.op = Operator(env, 'A', reg, make_settings(), clusterwide=False, namespaces=['ns', 'ns2'])
        else:
            self.op = Operator(env, 'A', reg, make_settings())
        self.op.start()

    def script(self, env: Env) -> list[UserAction]:
        acts = [UserAction(12.0, 'create-late', lambda e: e.world.create(KEX, 'ns', 'late', {'spec': {'x': 99}}))]
        if self.params.get('same_names'):
            acts = [UserAction(7.0, 'edit-first-kind', lambda e: e.world.merge(KEX, 'ns', 'o0', {'spec': {'x': 50}})),
                    UserAction(9.0, 'edit-second-kind', lambda e: e.world.merge(KEX2, 'ns', 'o0', {'spec': {'w': 51}}))] + acts
        return acts

    def check(self, env: Env) -> list[Violation]:
        out: list[Violation] = []
        if env.end_reason in ('stall', 'livelock', 'step-budget'):
            return [self.viol(env, 'no-progress', f'execution ended with {env.end_reason}', end=env.end_reason)]
        same = bool(self.params.get('same_names'))
        want1 = sorted((f'o{i}' if same else f'x{i}') for i in range(self.params['n1']))
        want2 = sorted((f'o{i}' if same else f'w{i}') for i in range(self.params['n2']))
        for t, k, p in env.obs:
            if k == 'handled':
                miss1 = [n for n in want1 if n not in p['idx1']] if p['idx1'] is not None else []
                miss2 = [n for n in want2 if n not in p['idx2']] if p['idx2'] is not None else []
                if miss1 or miss2:
                    out.append(self.viol(env, 'handled-before-indexed', f"t={t}: {p['id']} ran for {p['name']} while the indices lack {miss1 + miss2} "
                                                                        f"(objects that existed when the operator started)", clause='barrier',
                                         handler='spawned' if p['id'] in ('tm', 'dm') else 'change'))
                    break
        for t, k, p in env.obs:
            if k == 'operator-exit' and p.get('how') == 'raised':
                out.append(self.viol(env, 'operator-failed', f"the operator raised {p.get('error')}", clause='barrier'))
        return out


def run(tier: str, seed: int) -> CheckResult:
    depth = 3 if tier == 'quick' else 3
    hist2 = [build_index(h, sp, delays=False, early_user=False, time_dev=False) for h in histories(depth, ['a', 'b']) for sp in ((0.5,) if tier == 'quick' else (0.5, 3.0))]
    hist3 = [build_index(h, 0.5, delays=False, early_user=False, time_dev=False) for h in histories(2 if tier == 'quick' else 3, ['a', 'b', 'c'])]
    # objects that yield EQUAL values under one key (the index is a multiset per key: one entry per object)
    hist2 += [build_index(h, 0.5, delays=False, early_user=False, time_dev=False) for h in histories(4, ['a', 'b'], codes=['same', 'other', 'k1'])
              if sum(1 for a in h if a[0] == 'set') >= 3]
    # the index under test alone (no always-matching sibling index of the kind): exclusions after errors hold across further events
    hist2 += [build_index(h, sp, lone_index=True, delays=False, early_user=False, time_dev=False) for h in histories(3, ['a', 'b'], codes=['k1', 'temp', 'perm', 'none'])
              for sp in (0.5, 3.0) if any(a[0] == 'set' and a[2] in ('temp', 'perm') for a in h)]
    # bursts: the events of an object come faster (every 0.25 s) than they are handled (a raw-event handler that takes 1 s): they queue up
    # behind each other, and every one of them - not only the last of the burst - is indexed before its handlers look at the index
    hist2 += [build_index(h, 0.25, probe_sleep=1.0, delays=False, early_user=False, time_dev=False)
              for h in histories(3, ['a', 'b'], codes=['k1', 'k2', 'temp', 'none']) if sum(1 for a in h if a[0] != 'wait') >= 2]
    deep = [] if tier == 'quick' else [build_index(h, 0.5, delays=False, early_user=False, time_dev=False)
                                       for h in histories(4, ['a', 'b']) if sum(1 for a in h if a[0] == 'set') <= 3 and any(a[0] in ('delete', 'label') for a in h)]
    barrier = [BarrierScenario(n1=n1, n2=n2, slow_index=slow, handlers_on_second=h2)
               for n1, n2, slow, h2 in [(1, 1, 0, False), (2, 1, 0, False), (1, 2, 1.0, False), (2, 2, 0, True), (0, 2, 0, False), (2, 0, 0, False)]]
    barrier += [BarrierScenario(n1=2, n2=2, slow_index=0, handlers_on_second=h2, same_names=True) for h2 in (False, True)]
    barrier += [BarrierScenario(n1=n1, n2=n2, slow_index=slow1, handlers_on_second=False, only_first_indexed=True, handled_second=True)
                for n1, n2, slow1 in [(1, 1, 0), (2, 2, 0), (2, 1, 1.0)]]
    barrier += [BarrierScenario(n1=n1, n2=n2, slow_index=0, slow_index2=slow2, handlers_on_second=False, only_second_indexed=True)
                for n1, n2, slow2 in [(1, 1, 0), (2, 2, 0), (1, 2, 1.0)]]
    # one indexed kind served in two namespaces (two listings of the same kind, ending at different times)
    barrier += [BarrierScenario(n1=n1, n2=n2, slow_index=slow, handlers_on_second=False, two_namespaces=True) for n1, n2, slow in [(2, 0, 0), (2, 1, 0), (3, 0, 1.0), (4, 1, 0)]]
    barrier += [BarrierScenario(n1=2, n2=0, slow_index=0, handlers_on_second=False, two_namespaces=True, only_first_indexed=True)]
    if tier == 'quick':
        groups = [('index-histories-2-objects', hist2, 0, 60.0), ('index-histories-3-objects', hist3, 0, 30.0), ('barrier', barrier, 2, 50.0)]
    else:
        groups = [('index-histories-2-objects', hist2, 0, 400.0), ('index-histories-3-objects', hist3, 0, 600.0), ('index-histories-depth-4', deep, 0, 600.0),
                  ('barrier', barrier, 3, 600.0)]
    stats, viols, info, nscen = run_groups(groups, seed=seed)
    return CheckResult(
        prop='C17', tier=tier, seed=seed, stats=stats, violations=viols, scenarios=nscen,
        bound_requested=max(g[2] for g in groups), extra={'groups': info},
        rule="(a) every history to depth 3 over {set index code (dict k1 / dict k2 / two keys / scalar / None / temporary / permanent / ignored "
             "error), label off, label on, delete, wait 3s} for 2 objects (and depth 2/3 for 3 objects; thorough: depth 4 subsets) whose keys "
             "collide, in the real closed loop; the index as seen by a raw-event probe after every event vs a dictionary model; (b) kopf.operator "
             "with two indexed kinds and 0-2 pre-existing objects each, a change handler, resume handler, daemon and timer: deviation-bounded "
             "search over delayed/reordered answers and deliveries of the two initial listings; non-trivial = outcome differs from the default "
             "schedule of the scenario",
        assumptions=["the reference follows docs/indexing.rst: None and ignored errors keep the values; temporary/permanent errors, filter mismatch and "
                     "deletion remove them; a temporarily failed object is not re-indexed before its delay has passed"])


def scenario_from(name: str, params: dict[str, Any]) -> Scenario:
    return {'c17-index': IndexScenario, 'c17-barrier': BarrierScenario}[name](**params)


def replay(rec: dict[str, Any]) -> int:
    env = execute(scenario_from(rec['scenario'], rec['params']), rec['labels'] or [])
    viols = getattr(env, 'violations', [])
    for t, k, p in env.obs:
        if k in ('user', 'probe', 'indexed', 'handled', 'operator-exit'):
            print(f'{t:8.3f} {k:10s}', {kk: vv for kk, vv in p.items() if kk in ('name', 'etype', 'rv', 'items', 'code', 'id', 'idx1', 'idx2', 'kind', 'how')})
    for v in viols:
        print('VIOLATION', v.kind, v.message)
    return 1 if viols else 0
