"""
C14 Resume handlers run once per object per operator process.

Subject: inventory (noticed_by_listing / fully_handled_once), processing._detect_causes,
registries.ChangingRegistry.iter_handlers (initial/deleted), in the closed loop with restarts.
Search: an object handled by a first operator process; a second process starts; every history to
depth d over {spec edit, status edit, delete, 410 Gone (re-listing), EOF (reconnect), graceful
restart, kill+restart} in two spacings (inside / outside the resume handlers' retry wait); resume
handler scripts {ok, temporary-then-ok}, one handler opted in for deleted objects, an object created
after the start (first seen through the watch); crash points and timing deviations on top.
Oracle per (process, object, resume handler): at most one successful invocation; exactly one at
quiescence for every object that existed at the start, was handled before, carried no unfinished
progress, matched, and was not being deleted (unless opted in); none for objects first seen through
the watch; none on objects marked for deletion unless opted in.
"""
from __future__ import annotations

import itertools
from typing import Any

from kv.explorer import Env, Scenario, Violation, execute
from kv.harness.change import ChangeScenario, any_progress_keys, last_handled
from kv.runner import CheckResult, run_groups

SETTLE = 22.0


class C14Scenario(ChangeScenario):
    name = 'c14'
    prop = 'C14'

    def check(self, env: Env) -> list[Violation]:
        out: list[Violation] = []
        if env.end_reason in ('stall', 'livelock', 'step-budget', 'deadlock'):
            return [self.viol(env, 'no-progress', f'execution ended with {env.end_reason}', end=env.end_reason)]
        K = self.kind
        resume = {h['id']: h for h in self.params['handlers'] if h['on'] == 'resume'}
        succ: dict[tuple[str, str, str], list[float]] = {}
        # Echo delays are not among the histories this property is quantified over: when the explorer holds the echo of the operator's own
        # PATCH back for the whole consistency timeout, kopf proceeds on the older view (by design; C02 and C07 spell that carve-out out),
        # and a handler whose record is only in the newer version runs again. Such executions are not judged for 'at most once'.
        timeout = float((self.params.get('settings') or {}).get('persistence__consistency_timeout', 5.0))
        post_rv = {r.rid: int(r.post['metadata']['resourceVersion']) for r in env.world.requests
                   if r.method == 'patch' and r.status == 200 and isinstance(r.post, dict)}
        own_rv: dict[tuple[str, str], tuple[int, float]] = {}
        stale_after_timeout: set[tuple[str, str]] = set()
        delivered_at: dict[tuple[str, int], float] = {}
        invoked: dict[tuple[str, str], dict[str, str]] = {}    # (process, uid) -> resume handler -> its latest outcome
        names: dict[str, str] = {}
        lost_open_write: set[tuple[str, str]] = set()
        for t, k, p in env.obs:
            if k == 'srv' and p.get('rid') in post_rv and p['verb'] in ('serve', 'respond'):
                oname = p['path'].rstrip('/').split('/')[-1 if not p['path'].endswith('/status') else -2]
                if post_rv[p['rid']] > own_rv.get((p['op'], oname), (0, 0.0))[0]:
                    own_rv[(p['op'], oname)] = (post_rv[p['rid']], t)
                continue
            if k == 'deliver' and isinstance(p.get('item'), tuple) and len(p['item']) >= 3 and p['item'][2]:
                delivered_at.setdefault((p['item'][1], int(p['item'][2])), t)
            if k == 'call' and p.get('rv') is not None and p.get('name') is not None:
                rv_own, t_own = own_rv.get((p['op'], p['name']), (0, 0.0))
                echo_at = delivered_at.get((p['name'], rv_own))
                # (only if the echo really was outstanding all that time: a newer view that HAS arrived must be taken)
                if int(p['rv']) < rv_own and t >= t_own + timeout - 1e-9 and (echo_at is None or echo_at >= t):
                    stale_after_timeout.add((p['op'], p['uid']))
            if k == 'srv' and p.get('fault') and p.get('method') == 'patch':
                # a PATCH the server rejected (injected): what it carried is lost. If it was NOT the write that closes the resume cycle (some resume
                # handler invoked so far is still unfinished), the finished ones are bound to run again (their records were in that write) - as
                # after any lost write; if it WAS the closing one, the process knows that it has resumed the object, record or no record.
                oname = p['path'].rstrip('/').split('/')[-1 if not p['path'].endswith('/status') else -2]
                req = next((r for r in env.world.requests if r.rid == p.get('rid')), None)
                anns = (((req.payload if req is not None and isinstance(req.payload, dict) else {}) or {}).get('metadata') or {}).get('annotations') or {}
                from kv.harness.change import LAST_HANDLED, TOUCH
                stores_progress = any(v is not None and k2.startswith('kopf.zalando.org/') and k2 not in (LAST_HANDLED, TOUCH) and not k2.endswith('kopf-managed')
                                      for k2, v in anns.items())      # a closing write only removes progress records
                for (op2, uid2), outcomes in invoked.items():
                    if op2 == p['op'] and names.get(uid2) == oname and (stores_progress or not all(o in ('ok', 'perm') for o in outcomes.values())):
                        lost_open_write.add((op2, uid2))
            if k == 'call' and p['id'] in resume:
                invoked.setdefault((p['op'], p['uid']), {})[p['id']] = p['outcome'].split(',')[0].split('~')[0]
                names[p['uid']] = p['name']
                if p['deleting'] and not resume[p['id']].get('deleted'):
                    out.append(self.viol(env, 'resume-on-deleting', f"t={t}: resume handler {p['id']} ran on an object marked for deletion without opting in",
                                         clause='deleted'))
                if p['outcome'].split(',')[0] == 'ok':
                    succ.setdefault((p['op'], p['uid'], p['id']), []).append(t)
        for (op, uid, hid), times in succ.items():
            if len(times) > 1 and (op, uid) not in stale_after_timeout and (op, uid) not in lost_open_write:
                out.append(self.viol(env, 'resumed-twice', f"resume handler {hid} succeeded {len(times)} times for object {uid} in process {op}: at {times}",
                                     clause='once'))
        # objects first seen through the watch in a process: no resume at all in that process
        incs = env.memo.get('incarnations', [])
        starts = {op: t0 for t0, op in incs}
        created_at: dict[str, float] = {}
        for w in env.world.writes:
            if w['verb'] == 'create' and w['kind'] == K.plural:
                created_at[w['post']['metadata']['uid']] = w['t']
        for (op, uid, hid), times in succ.items():
            if created_at.get(uid, -1) > starts.get(op, -1):
                out.append(self.viol(env, 'resumed-new-object', f"resume handler {hid} ran for object {uid} created at {created_at[uid]} after process {op} started at {starts[op]}",
                                     clause='only-preexisting'))
        # exactly once at quiescence, for the last process
        t_last = max([t for t, k, p in env.obs if k in ('user', 'kill', 'start', 'extra')]
                     + [t for t, k, p in env.obs if k == 'srv' and p.get('t_issued') is not None and t > p['t_issued']] + [0.0])
        p_last = env.memo.get('pipeline')
        # a write the server rejected is made up for at the next occasion (an event of the object): with nothing happening after the last
        # rejected write there is no such occasion (C12 spells that out) - liveness is not judged then
        t_fault = max([t for t, k, p in env.obs if k == 'srv' and p.get('fault') and p.get('method') == 'patch'] + [-1.0])
        t_event = max([t for t, k, p in env.obs if k in ('user', 'streamfault')] + [0.0])
        if p_last is not None and env.now >= t_last + SETTLE and not env.owes() and not t_fault >= t_event:
            op = p_last.opid
            t0 = starts[op]
            # the objects' states when the process started (by position in the observation log)
            at_start: dict[str, Any] = {}
            for t, k, p in env.obs:
                if k == 'start' and p['op'] == op:
                    break
                if k == 'write' and p['objkind'] == K.plural:
                    w = env.world.writes[p['idx']]
                    at_start[(w['post'] or w['pre'])['metadata']['uid']] = w['post']
            for uid, tc in created_at.items():
                state = at_start.get(uid)
                if state is None:
                    continue
                if last_handled(state) is None or any_progress_keys(state):
                    continue   # never handled before / unfinished progress from an earlier process: not demanded
                alive = [o for o in env.world.objects[K.key].values() if o['metadata']['uid'] == uid]
                # was it being deleted at the start, or deleted at any time later? then only the opted-in ones (if at all)
                deleted_later = any(w['verb'] in ('mark-deleted', 'delete') for w in env.world.writes
                                    if w['kind'] == K.plural and (w['pre'] or {}).get('metadata', {}).get('uid') == uid and w['t'] >= t0)
                if 'deletionTimestamp' in state['metadata']:
                    # being deleted when the process starts (deleted during the downtime), still held by kopf's finalizer: the resume handlers
                    # that opted in (deleted=True) run in the deletion cycle, once; the others do not
                    from kv.harness.change import FINALIZER
                    if FINALIZER in (state['metadata'].get('finalizers') or []):
                        for hid in resume:
                            if resume[hid].get('deleted') and resume[hid].get('script', ['ok'])[-1].startswith('ok') and not succ.get((op, uid, hid)):
                                out.append(self.viol(env, 'not-resumed', f"resume handler {hid} (deleted=True) never ran for object {uid}, which was being deleted "
                                                                         f"when process {op} started at {t0}", clause='opted-in-for-deleted'))
                    continue
                if deleted_later or not alive:
                    continue
                for hid in resume:
                    n = len(succ.get((op, uid, hid), []))
                    script_ends_ok = resume[hid].get('script', ['ok'])[-1].startswith('ok')   # a permanently failed one never succeeds
                    if n == 0 and script_ends_ok:
                        out.append(self.viol(env, 'not-resumed', f"resume handler {hid} never succeeded for pre-existing object {uid} in process {op} "
                                                                 f"(started at {t0}; judged at {env.now})", clause='exactly-once'))
        return out


def histories(depth: int) -> list[list[tuple[str, ...]]]:
    alphabet: list[tuple[str, ...]] = [('spec', 'a', 2), ('status', 'a', 7), ('delete', 'a'), ('relist',), ('reconnect',),
                                       ('restart',), ('killrestart',), ('downdelete',)]
    out = []
    for d in range(0, depth + 1):
        for combo in itertools.product(alphabet, repeat=d):
            ok = True
            for i, a in enumerate(combo):
                if i and combo[i - 1] == a and a[0] != 'spec':
                    ok = False
                if a[0] in ('delete', 'downdelete') and (('delete', 'a') in combo[:i] or ('downdelete',) in combo[:i]):
                    ok = False
            if ok:
                out.append(list(combo))
    return out


def build(history: list[tuple[str, ...]], spacing: float, scripts: tuple[list[str], ...], late_b: bool, **kw: Any) -> C14Scenario:
    handlers = [dict(id='d1', on='delete', script=['temp', 'ok']),    # a deletion lingers (finalizer): resume handlers meet objects being deleted
                dict(id='c1', on='create', script=['ok']), dict(id='u1', on='update', script=scripts[2] if len(scripts) > 2 else ['ok']),
                dict(id='r1', on='resume', script=scripts[0]), dict(id='r2', on='resume', script=scripts[1]),
                dict(id='r3', on='resume', script=['ok'], deleted=True), dict(id='r4', on='resume', script=['ok'], deleted=False)]
    user: list[tuple] = [(1.0, 'createbare' if kw.get('bare') else 'create', 'a'), (6.0, 'restart')]     # bare: an object with an EMPTY essence
    t = 6.0
    if late_b:
        user.append((6.5, 'create', 'b'))
    flip = 2
    for a in history:
        t += spacing
        if a[0] == 'downdelete':      # the object is deleted while no operator runs; the next process finds it marked, held by the finalizer
            user += [(t, 'stop'), (t + spacing / 4, 'delete', 'a'), (t + spacing / 2, 'start')]
        elif a[0] == 'spec':
            flip = 3 if flip == 2 else 2
            user.append((t, 'spec', 'a', flip))
        else:
            user.append((t, *a))
    return C14Scenario(handlers=handlers, user=user, horizon=t + SETTLE + 6, history=[list(a) for a in history], spacing=spacing,
                       scripts=[list(s) for s in scripts], late_b=late_b,
                       settings={'persistence__consistency_timeout': 5.0}, **kw)


def run(tier: str, seed: int) -> CheckResult:
    depth = 3 if tier == 'quick' else 4
    # (resume r1, resume r2[, update u1]); a handler that fails for good has finished as well
    script_sets: list[tuple[list[str], ...]] = [(['ok'], ['temp', 'ok']), (['ok'], ['ok']), (['ok'], ['perm']), (['ok'], ['ok'], ['perm']),
                                                  (['ok~2'], ['ok'])] if tier == 'quick' else \
        [(['ok'], ['temp', 'ok']), (['ok'], ['ok']), (['temp', 'ok'], ['temp', 'temp', 'ok']), (['arb', 'ok'], ['ok']),
         (['ok'], ['perm']), (['ok'], ['ok'], ['perm']), (['perm'], ['temp', 'ok'], ['temp', 'perm']),
         (['ok~2'], ['ok']), (['ok~2'], ['temp', 'ok~2'])]     # slow handlers: re-listings and edits land while one is running
    hist = [build(h, sp, sc, late_b=(len(h) <= 1), delays=False, early_user=False, time_dev=False)
            for h in histories(depth) for sp in (1.0, 8.0) for sc in script_sets]
    hist += [build(h, sp, sc, late_b=False, bare=True, delays=False, early_user=False, time_dev=False)
             for h in histories(2) for sp in (1.0, 8.0) for sc in script_sets[:2]]
    timing = [build(h, 2.0, script_sets[0], late_b=False, kills=True) for h in histories(1 if tier == 'quick' else 2)]
    # one PATCH of the new process is rejected by the server (500) - every one in turn -, then the history goes on: a rejected write that
    # was to close the resume cycle does not make the process resume the object again
    faulty = [build(h, sp, sc, late_b=False, faults=['500'], max_faults=1, delays=False, early_user=False, time_dev=False)
              for h in ([('relist',)], [('spec', 'a', 2)], [('reconnect',), ('status', 'a', 7)], [('status', 'a', 7), ('relist',)])
              for sp in (8.0, 20.0) for sc in script_sets[:2]]
    # ... and one LIST / WATCH request fails on the connection level (the first LIST of the new process among them, retried after the
    # client's backoff; a failed PATCH needs a later event to be made up for - C12's subject): the objects found by the listing that finally succeeds are resumed all the same
    faulty += [build(h, 8.0, sc, late_b=False, faults=['conn'], fault_all=True, fault_methods=['get'], max_faults=1, delays=False, early_user=False, time_dev=False)
               for h in ([], [('relist',)], [('status', 'a', 7)]) for sc in script_sets[:2]]
    # the operator also serves admission webhooks (with the very memories its watchers use): the API server asks it about an UPDATE of the
    # object before the new process has listed anything - the object is still one that "already exists" when the process finds it in its listing
    for tail in ([], [('relist',)], [('spec', 'a', 2)], [('status', 'a', 7), ('reconnect',)]):
        for sc in script_sets[:2]:
            b = build(tail, 8.0, sc, late_b=False, delays=False, early_user=False, time_dev=False)
            params = dict(b.params)
            params['user'] = [(t, 'restartadmit', 'a') if (t, a) == (6.0, 'restart') else (t, a, *rest) for t, a, *rest in params['user']]
            hist.append(C14Scenario(**params))
            params2 = dict(b.params)     # ... or right after it has (nothing changes then)
            params2['user'] = sorted(params2['user'] + [(6.5, 'admit', 'a')], key=lambda u: u[0])
            hist.append(C14Scenario(**params2))
    if tier == 'quick':
        groups = [('histories', hist, 0, 60.0), ('timing+kills', timing, 1, 40.0), ('a-rejected-write', faulty, 1, 30.0)]
    else:
        groups = [('histories', hist, 0, 600.0), ('timing+kills', timing, 2, 600.0), ('a-rejected-write', faulty, 2, 300.0)]
    stats, viols, info, nscen = run_groups(groups, seed=seed)
    return CheckResult(
        prop='C14', tier=tier, seed=seed, stats=stats, violations=viols, scenarios=nscen,
        bound_requested=max(g[2] for g in groups), extra={'groups': info, 'history_depth': depth},
        rule="scenarios = object handled by process A1, process A2 starts at t=6, then every history to depth 3/4 over {spec edit, "
             "status edit, delete, 410 Gone re-listing, EOF reconnect, graceful restart, kill+restart} x spacing {1s: inside the "
             "resume retry wait, 8s} x resume scripts; 3 resume handlers (one opted in for deleted objects) + create/update "
             "handlers; a second object created after the start; timing group adds kills and deviations; non-trivial = outcome "
             "differs from the default schedule",
        assumptions=["'exactly once' is judged 22 virtual seconds after the last external activity and only when the environment owes nothing",
                     "objects with unfinished progress or never handled before are only held to 'at most once'"])


def scenario_from(name: str, params: dict[str, Any]) -> Scenario:
    return C14Scenario(**params)


def replay(rec: dict[str, Any]) -> int:
    sc = scenario_from(rec['scenario'], rec['params'])
    env = execute(sc, rec['labels'])
    viols = getattr(env, 'violations', [])
    for t, k, p in env.obs:
        if k in ('call', 'write', 'user', 'kill', 'start', 'stop', 'streamfault'):
            brief = {kk: vv for kk, vv in p.items() if kk in ('id', 'retry', 'reason', 'rv', 'outcome', 'actor', 'verb', 'name', 'op', 'uid')}
            print(f'{t:8.3f} {k:8s} {brief}')
    for v in viols:
        print('VIOLATION', v.kind, v.message)
    return 1 if viols else 0
