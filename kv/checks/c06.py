"""
C06 The finalizer is never released early, always released eventually.

Subject: processing.process_resource_causes (deletion_must_be_blocked, release), finalizers.*,
patching.patch_obj (JSON-patch with the resourceVersion test, 422 -> remaining patch),
daemons.stop_daemons, registries.requires_finalizer - in the closed loop.
Search: mandatory/optional delete handlers with outcome scripts, label filters that are toggled,
daemons (obey / need cancellation / ignore both) x cancellation_backoff x cancellation_timeout,
a sleeping timer, foreign finalizers added/removed, kopf's finalizer stripped by force, events
arriving while daemons are being stopped, restarts; deviation-bounded timing on top (this places
foreign edits between the operator's view and its PATCHes, which produces the 422 conflicts).
Oracle: evaluated on every write of the operator, against the server-side object before the write.
"""
from __future__ import annotations

import itertools
from typing import Any

from kv.explorer import Env, Scenario, Violation, execute
from kv.harness.change import FINALIZER, ChangeScenario
from kv.runner import CheckResult, run_groups

SETTLE = 20.0


def fins(obj: dict | None) -> list[str]:
    return list(((obj or {}).get('metadata') or {}).get('finalizers') or [])


class C06Scenario(ChangeScenario):
    name = 'c06'
    prop = 'C06'

    def __init__(self, **params: Any) -> None:
        if not any(h['id'] == 'ev' for h in params['handlers']):
            # a raw-event probe: tells which view of the object a cycle (and its finalizer decision) was based on
            params = dict(params, handlers=list(params['handlers']) + [dict(id='ev', on='event', script=['ok'])])
        super().__init__(**params)

    def _decision_pattern(self, env: Env, w: dict, view_rv: int | None) -> str:
        """Classify HOW a wrong finalizer write came about (for the known-findings signatures only).

        'decided-on-older-view-than-tested-version': the cycle took its decision on view V, but patch_obj tested the
        JSON-patch against a NEWER version (the one returned by the operator's own preceding merge-patch), and a
        foreign write lies in between: the optimistic-concurrency test could not see it."""
        req = next((r for r in env.world.requests if r.rid == w.get('rid')), None)
        if req is None or view_rv is None or not isinstance(req.payload, list):
            return 'other'
        tests = [op.get('value') for op in req.payload if isinstance(op, dict) and op.get('op') == 'test']
        if not tests or tests[0] is None:
            return 'other'
        tested = int(tests[0])
        if tested <= view_rv:
            return 'other'
        uid = (w['pre'] or {}).get('metadata', {}).get('uid')
        foreign = [x for x in env.world.writes if x['actor'] == 'user' and x['post'] is not None and x['post']['metadata'].get('uid') == uid
                   and view_rv < int(x['post']['metadata']['resourceVersion']) <= tested]
        return 'decided-on-older-view-than-tested-version' if foreign else 'other'

    def requiring(self) -> list[dict]:
        out = []
        for h in self.params['handlers']:
            if h['on'] in ('daemon', 'timer') or (h['on'] == 'delete' and not h.get('optional')):
                out.append(h)
        return out

    @staticmethod
    def matches(h: dict, obj: dict) -> bool:
        labels = ((obj.get('metadata') or {}).get('labels') or {})
        return all(labels.get(k) == v for k, v in (h.get('labels') or {}).items())

    def check(self, env: Env) -> list[Violation]:
        out: list[Violation] = []
        if env.end_reason in ('stall', 'livelock', 'step-budget', 'deadlock'):
            return [self.viol(env, 'no-progress', f'execution ended with {env.end_reason}', end=env.end_reason)]
        K = self.kind
        req = self.requiring()
        dead_ops: set[str] = set()
        final_delete: dict[tuple[str, str], bool] = {}       # (uid, handler) -> reached a final outcome
        daemons: dict[tuple[str, str, int], dict] = {}        # (uid, id, inst) -> {enter, flag, exit, op}
        timers_running: dict[tuple[str, str], int] = {}
        hspec = {h['id']: h for h in self.params['handlers']}
        retired: dict[tuple[str, str], float] = {}    # (uid, handler) -> when its instance exited on its own
        view: dict[tuple[str, str], int] = {}    # (op, uid) -> version of the event being processed
        for t, k, p in env.obs:
            if k == 'call' and p['id'] == 'ev':
                view[(p['op'], p['uid'])] = int(p['rv'])
                continue
            if k == 'kill':
                dead_ops.add(p['op'])
            elif k == 'stop':
                dead_ops.add(p['op'])   # a gracefully stopped operator gives up its duties for the object
            elif k == 'call' and p.get('reason') == 'delete':
                kind = p['outcome'].split(',')[0]
                if kind in ('ok', 'perm'):
                    final_delete[(p['uid'], p['id'])] = True
            elif k == 'call' and hspec.get(p['id'], {}).get('on') == 'timer':
                timers_running[(p['uid'], p['id'])] = timers_running.get((p['uid'], p['id']), 0) + 1
            elif k == 'ret' and hspec.get(p['id'], {}).get('on') == 'timer':
                timers_running[(p['uid'], p['id'])] = timers_running.get((p['uid'], p['id']), 0) - 1
            elif k == 'daemon-enter':
                daemons[(p['uid'], p['id'], p['inst'])] = {'enter': t, 'flag': None, 'exit': None, 'op': p['op']}
                if p.get('sync'):
                    # a synchronous daemon is deaf to its stop flag: the flag is taken to be raised when its object is marked for deletion
                    marked_at = next((w2['t'] for w2 in env.world.writes if w2['verb'] == 'mark-deleted' and (w2['pre'] or {}).get('metadata', {}).get('uid') == p['uid']), None)
                    daemons[(p['uid'], p['id'], p['inst'])]['flag_when_marked'] = marked_at
            elif k == 'daemon-flag':
                d = daemons.get((p['uid'], p['id'], p['inst']))
                if d is not None and d['flag'] is None:
                    d['flag'] = t
            elif k == 'daemon-exit':
                d = daemons.get((p['uid'], p['id'], p['inst']))
                if d is not None:
                    d['exit'] = t
                    if d['flag'] is None and p.get('how') == 'returned':
                        retired[(p['uid'], p['id'])] = t    # exited on its own: not restarted, requires nothing any more
            elif k == 'write' and p['actor'].startswith('op:') and p['objkind'] == K.plural:
                w = env.world.writes[p['idx']]
                pre, post = w['pre'], w['post']
                if pre is None:
                    continue
                uid = pre['metadata']['uid']
                f_pre, f_post = fins(pre), fins(post)
                own = {FINALIZER, self.params.get('user_fin')}    # a finalizer the operator's own handlers manage is not foreign
                foreign_pre = [f for f in f_pre if f not in own]
                foreign_post = [f for f in f_post if f not in own]
                if foreign_pre != foreign_post:
                    out.append(self.viol(env, 'foreign-finalizers-changed',
                                         f"t={t}: the operator's write turned foreign finalizers {foreign_pre} into {foreign_post}",
                                         clause='foreign'))
                had, has = FINALIZER in f_pre, FINALIZER in f_post
                marked = 'deletionTimestamp' in pre['metadata']
                opid = p['actor'].split(':')[1]
                rq = next((r for r in env.world.requests if r.rid == w.get('rid')), None)
                t_decided = rq.t_issued if rq is not None else t      # a decision is judged by what was true when it was sent
                pattern = self._decision_pattern(env, w, view.get((opid, uid))) if had != has else 'other'
                if had and not has:
                    if marked:
                        for h in req:
                            if not self.matches(h, pre):
                                continue
                            if h['on'] == 'delete' and not final_delete.get((uid, h['id'])):
                                out.append(self.viol(env, 'released-early',
                                                     f"t={t}: finalizer removed although the mandatory delete handler {h['id']} has not finished",
                                                     clause='early', why='delete-handler', pattern=pattern))
                            if h['on'] == 'timer' and timers_running.get((uid, h['id']), 0) > 0:
                                out.append(self.viol(env, 'released-early',
                                                     f"t={t}: finalizer removed while timer {h['id']} is running",
                                                     clause='early', why='timer', pattern=pattern))
                            if h['on'] == 'daemon':
                                for (duid, did, inst), d in daemons.items():
                                    if duid != uid or did != h['id'] or d['exit'] is not None or d['op'] in dead_ops:
                                        continue
                                    backoff, timeout = h.get('cancellation_backoff'), h.get('cancellation_timeout')
                                    flag = d['flag'] if d['flag'] is not None else d.get('flag_when_marked')
                                    abandoned = (timeout is not None and flag is not None
                                                 and t >= flag + (backoff or 0) + timeout)
                                    if not abandoned:
                                        out.append(self.viol(env, 'released-early',
                                                             f"t={t}: finalizer removed while daemon {did} (flag at {flag}, "
                                                             f"backoff={backoff}, timeout={timeout}) has neither exited nor been abandoned",
                                                             clause='early', why='daemon', pattern=pattern))
                    else:
                        still = [h['id'] for h in req if self.matches(h, pre) and (uid, h['id']) not in retired]   # retired by now
                        if still:
                            out.append(self.viol(env, 'unblocked-while-required',
                                                 f"t={t}: finalizer removed from a live object that {still} still require",
                                                 clause='live-removal', pattern=pattern))
                if not had and has:
                    need = [h['id'] for h in req if self.matches(h, pre) and retired.get((uid, h['id']), float('inf')) >= t_decided]
                    if not need and not marked:
                        out.append(self.viol(env, 'blocked-needlessly',
                                             f"t={t}: finalizer added to an object that no handler requires", clause='needless', pattern=pattern))
                    if marked:
                        out.append(self.viol(env, 'blocked-while-deleting',
                                             f"t={t}: finalizer added to an object already marked for deletion", clause='needless'))
        # -- eventually --
        t_last = max([t for t, k, p in env.obs if k in ('user', 'kill', 'start', 'extra')]
                     + [t for t, k, p in env.obs if k == 'srv' and p.get('t_issued') is not None and t > p['t_issued']] + [0.0])
        running_op = env.memo.get('pipeline') is not None
        if env.now >= t_last + SETTLE + 2 and running_op and not self.params.get('no_liveness') and not env.owes():
            for (ns, name), obj in env.world.objects[K.key].items():
                uid = obj['metadata']['uid']
                need = [h for h in req if self.matches(h, obj) and (uid, h['id']) not in retired]
                has = FINALIZER in fins(obj)
                if 'deletionTimestamp' in obj['metadata']:
                    if not has:
                        continue   # held by somebody else
                    blockers = []
                    for h in need:
                        if h['on'] == 'delete' and not final_delete.get((uid, h['id'])) and h.get('script', ['ok'])[-1] in ('ok', 'perm'):
                            blockers.append(h['id'])
                        if h['on'] == 'daemon':
                            for (duid, did, inst), d in daemons.items():
                                if duid == uid and did == h['id'] and d['exit'] is None and d['op'] not in dead_ops \
                                        and h.get('cancellation_timeout') is None:
                                    blockers.append(did)
                    if not blockers:
                        out.append(self.viol(env, 'not-released', f"object {name}: everything has finished but kopf's finalizer is still there "
                                                                  f"{SETTLE}s after the last external action", clause='eventually'))
                elif need and not has:
                    out.append(self.viol(env, 'not-blocked', f"object {name} matches {[h['id'] for h in need]} but carries no finalizer", clause='added'))
                elif not need and has:
                    out.append(self.viol(env, 'not-unblocked', f"object {name} matches no requiring handler but still carries the finalizer", clause='removed'))
        return out


def scenarios(tier: str) -> tuple[list[C06Scenario], list[C06Scenario]]:
    base: list[C06Scenario] = []
    deep: list[C06Scenario] = []
    st = {'persistence__consistency_timeout': 5.0, 'background__cancellation_polling': 4}
    # F1: delete handlers
    for d1, d2, filt in itertools.product([['ok'], ['temp', 'temp', 'ok'], ['perm']], [None, ['ok'], ['temp', 'ok']], [False, True]):
        handlers = [dict(id='c1', on='create', script=['ok']),
                    dict(id='d1', on='delete', script=d1, **({'labels': {'on': 'yes'}} if filt else {}))]
        if d2:
            handlers.append(dict(id='d2', on='delete', script=d2, optional=True))
        for variant in ('plain', 'foreign', 'foreign2', 'toggle', 'toggle-quiet', 'toggle-back', 'strip', 'restart'):
            user: list[tuple] = [(1.0, 'create', 'a')]
            if filt:
                user.append((2.0, 'label', 'a', 'on', 'yes'))
            if variant == 'foreign':
                user += [(3.0, 'addfin0', 'a', 'other/fin'), (10.0, 'delete', 'a'), (11.0, 'status', 'a', 1), (14.0, 'delfin', 'a', 'other/fin')]
            elif variant == 'foreign2':   # kopf's finalizer between two foreign ones; one of them goes away around the release
                if d2 == ['temp', 'ok']:
                    continue
                user += [(3.0, 'addfin0', 'a', 'other/fin'), (4.0, 'addfin', 'a', 'third/fin'), (10.0, 'delete', 'a'), (14.0, 'delfin', 'a', 'other/fin'),
                         (18.0, 'delfin', 'a', 'third/fin')]
            elif variant == 'toggle':
                if not filt:
                    continue
                user += [(5.0, 'label', 'a', 'on', 'no'), (8.0, 'label', 'a', 'on', 'yes'), (10.0, 'delete', 'a'), (11.0, 'label', 'a', 'on', 'no')]
            elif variant == 'toggle-quiet':
                # the label is switched off, then - around the operator's own finalizer removal - switched on again together
                # with the deletion; nothing else ever happens to the object
                if not filt:
                    continue
                user += [(5.0, 'label', 'a', 'on', 'no'), (5.5, 'labeldelete', 'a', 'on', 'yes')]
            elif variant == 'toggle-back':
                # marked for deletion with the delete handler between its retries; the label goes off (-> release decided) and on again
                # around the operator's finalizer removal; nothing else ever happens to the object
                if not filt:
                    continue
                user += [(5.0, 'label', 'a', 'on', 'no'), (8.0, 'label', 'a', 'on', 'yes'), (10.0, 'delete', 'a'), (11.0, 'label', 'a', 'on', 'no'),
                         (11.5, 'label', 'a', 'on', 'yes')]
            elif variant == 'strip':
                user += [(10.0, 'delete', 'a'), (10.5, 'strip', 'a')]
            elif variant == 'restart':
                user += [(10.0, 'delete', 'a'), (11.0, 'restart')]
            else:
                user += [(10.0, 'delete', 'a'), (11.0, 'status', 'a', 1)]
            sc = C06Scenario(handlers=handlers, user=user, settings=st, horizon=50.0, variant=variant)
            base.append(sc)
            if variant in ('foreign', 'foreign2', 'toggle', 'toggle-quiet') and d1 != ['perm'] and d2 != ['temp', 'ok']:
                deep.append(sc)
    # one function with several decorators (@kopf.on.create / update + @kopf.on.delete): its handlers share one id. The object is deleted
    # while the creation / update cycle that the namesake took part in is still unfinished (a sibling waits for its retry)
    for first, lc in itertools.product(('create', 'update'), ('asap', 'all_at_once', 'one_by_one')):
        for d_script in (['ok'], ['temp', 'ok']):
            handlers = [dict(id='fn', on=first, script=['ok']), dict(id='sib', on=first, script=['temp', 'temp', 'ok']),
                        dict(id='fn', on='delete', script=d_script)]
            if first == 'update':
                handlers = [dict(id='c1', on='create', script=['ok'])] + handlers
                user = [(1.0, 'create', 'a'), (10.0, 'spec', 'a', 2), (11.0, 'delete', 'a')]
            else:
                user = [(1.0, 'create', 'a'), (2.0, 'delete', 'a')]
            base.append(C06Scenario(handlers=handlers, user=user, lifecycle=lc, settings=st, horizon=50.0, variant='namesakes'))
    # F2: daemons and a sleeping timer
    for reaction, backoff, timeout in list(itertools.product(['obeys', 'cancel', 'ignore'], [None, 2.0], [None, 3.0])) + \
            [('cancel', 3.0, 2.0), ('ignore', 3.0, 2.0), ('cancel', 2.0, 2.0),      # + a backoff not shorter than the timeout
             ('ignore', 2.0, 0.0), ('ignore', None, 0.0), ('cancel', 0.0, 3.0), ('ignore', 0.0, 0.0)]:    # + zero: "give up at once" / "no grace"
        for exit_delay, d1 in itertools.product((0.0, 1.0) if reaction != 'ignore' else (0.0,), (None, ['ok'], ['temp', 'ok'])):
            handlers = [dict(id='dm', on='daemon', reaction=reaction, exit_delay=exit_delay,
                             cancellation_backoff=backoff, cancellation_timeout=timeout)]
            if d1:
                handlers.append(dict(id='d1', on='delete', script=d1))
            for variant in ('plain', 'events', 'foreign'):
                user = [(1.0, 'create', 'a'), (10.0, 'delete', 'a')]
                if variant == 'events':
                    user += [(10.5, 'status', 'a', 1), (11.0, 'label', 'a', 'z', '1'), (13.0, 'status', 'a', 2)]
                if variant == 'foreign':
                    user = [(1.0, 'create', 'a'), (3.0, 'addfin', 'a', 'other/fin'), (10.0, 'delete', 'a'), (11.0, 'delfin', 'a', 'other/fin')]
                base.append(C06Scenario(handlers=handlers, user=user, settings=st, horizon=50.0, variant=variant,
                                        no_liveness=(reaction == 'ignore' and timeout is None) or (reaction == 'cancel' and timeout is None and False)))
    # a synchronous daemon (a thread: deaf to the flag, uncancellable) that outlives the deletion: released when abandoned, not before
    for backoff, timeout, dur in ((2.0, 3.0, 20.0), (None, 3.0, 20.0), (2.0, 3.0, 12.5)):
        base.append(C06Scenario(handlers=[dict(id='dm', on='daemon', body='sync', duration=dur, cancellation_backoff=backoff, cancellation_timeout=timeout)],
                                user=[(1.0, 'create', 'a'), (10.0, 'delete', 'a'), (11.0, 'status', 'a', 1)], settings=st, horizon=50.0, variant='sync-daemon'))
    # a label-filtered daemon that is slow to leave: the label goes off and comes back while the old instance is still leaving, then
    # the object is deleted (right away, after the old instance has left, after a further event)
    for dm in (dict(id='dm', on='daemon', reaction='obeys', exit_delay=3.0, labels={'on': 'yes'}),
               dict(id='dm', on='daemon', reaction='cancel', exit_delay=3.0, cancellation_backoff=None, cancellation_timeout=6.0, labels={'on': 'yes'})):
        for t_on, t_del, extra_ev in itertools.product((6.0, 9.0), (7.0, 10.0, 14.0), (None, 9.5)):
            if t_del <= t_on:
                continue
            user = [(1.0, 'createl', 'a', 'on', 'yes'), (5.0, 'label', 'a', 'on', 'no'), (t_on, 'label', 'a', 'on', 'yes')]
            if extra_ev and t_on < extra_ev < t_del:
                user.append((extra_ev, 'status', 'a', 1))
            user += [(t_del, 'delete', 'a'), (t_del + 0.5, 'status', 'a', 2)]
            base.append(C06Scenario(handlers=[dm], user=sorted(user, key=lambda u: u[0]), settings=st, horizon=50.0, variant='relabel-slow-daemon'))
    # two spawned handlers: the first-registered one exits on its own, the other keeps requiring the finalizer
    for second in (dict(id='dm2', on='daemon', reaction='cancel', cancellation_backoff=None, cancellation_timeout=3.0),
                   dict(id='dm2', on='daemon', reaction='obeys', exit_delay=1.0),
                   dict(id='tm2', on='timer', interval=4.0, script=['ok~1'])):
        for order in (0, 1):
            pair = [dict(id='dm', on='daemon', reaction='exits', lifetime=2.0), second]
            handlers = pair if order == 0 else pair[::-1]
            base.append(C06Scenario(handlers=handlers, user=[(1.0, 'create', 'a'), (5.0, 'status', 'a', 1), (10.0, 'delete', 'a'), (10.5, 'status', 'a', 2)],
                                    settings=st, horizon=45.0, variant='siblings'))
    base.append(C06Scenario(handlers=[dict(id='dm', on='daemon', reaction='exits', lifetime=2.0)],
                            user=[(1.0, 'create', 'a'), (5.0, 'status', 'a', 1), (10.0, 'delete', 'a')], settings=st, horizon=45.0, variant='loner'))
    handlers = [dict(id='tm', on='timer', interval=4.0, script=['ok+sleep3']), dict(id='c1', on='create', script=['ok'])]
    for tdel in (9.0, 10.0, 11.5):
        base.append(C06Scenario(handlers=handlers, user=[(1.0, 'create', 'a'), (tdel, 'delete', 'a'), (tdel + 0.5, 'status', 'a', 1)],
                                settings=st, horizon=45.0, variant='timer'))
    return base, deep


def run(tier: str, seed: int) -> CheckResult:
    base, deep = scenarios(tier)
    # the release of a marked object against a label that goes off and on again: small enough to complete bound 2 always
    relabel = [s for s in base if s.params.get('variant') == 'toggle-back' and s.params['handlers'][1]['script'] != ['ok']]
    if tier == 'quick':
        groups = [('all', base, 1, 60.0), ('foreign+toggle', deep, 2, 30.0), ('release-vs-relabel', relabel, 2, 60.0)]
    else:
        groups = [('all', base, 2, 700.0), ('foreign+toggle', deep, 3, 500.0), ('release-vs-relabel', relabel, 3, 400.0)]
    stats, viols, info, nscen = run_groups(groups, seed=seed)
    return CheckResult(
        prop='C06', tier=tier, seed=seed, stats=stats, violations=viols, scenarios=nscen,
        bound_requested=max(g[2] for g in groups), extra={'groups': info},
        rule="scenarios = mandatory delete handler script {ok | temp,temp,ok | perm} x optional delete handler x label filter x "
             "user variants {plain, foreign finalizer add/remove, label toggles, forced strip of kopf's finalizer, restart}; daemons "
             "{obeys, needs cancellation, ignores both} x cancellation_backoff {None,2} x cancellation_timeout {None,3} x exit delay "
             "x {plain, events while stopping, foreign finalizer}; a timer sleeping across the deletion; deviations = early/late user "
             "edits (they land between the operator's view and its PATCHes -> 422s), delayed responses, timers before deliveries; "
             "non-trivial = outcome differs from the scenario's default schedule",
        assumptions=["'matching' is judged on the server-side object immediately before the operator's write",
                     "daemon abandonment is legal from stop-flag time + backoff + timeout on",
                     "'eventually' = within 20 virtual seconds after the last external action"])


def scenario_from(name: str, params: dict[str, Any]) -> Scenario:
    return C06Scenario(**params)


def replay(rec: dict[str, Any]) -> int:
    sc = scenario_from(rec['scenario'], rec['params'])
    env = execute(sc, rec['labels'])
    viols = getattr(env, 'violations', [])
    for t, k, p in env.obs:
        if k in ('call', 'write', 'user', 'kill', 'start', 'stop', 'daemon-enter', 'daemon-flag', 'daemon-exit', 'daemon-cancelled', 'srv'):
            brief = {kk: vv for kk, vv in p.items() if kk in ('id', 'retry', 'reason', 'rv', 'outcome', 'actor', 'verb', 'name', 'op', 'how', 'method', 'status', 'ctype')}
            if k == 'write':
                w = env.world.writes[p['idx']]
                brief['fins'] = (fins(w['pre']), fins(w['post']))
            print(f'{t:8.3f} {k:14s} {brief}')
    for v in viols:
        print('VIOLATION', v.kind, v.message)
    return 1 if viols else 0
