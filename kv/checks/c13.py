"""
C13 Peering: lower-priority operators pause, exactly the top one is active.

Subject: 2-3 whole kopf.operator() instances in one virtual loop with one virtual clock, sharing a
ClusterKopfPeering object in the in-memory API server (peering.process_peering_event / keepalive / touch /
clean, orchestration's peering tasks and pause toggles, watching.streaming_block, daemons.daemon_killer).
Search: priorities {0,0,100}; every history to depth d over {start X, graceful stop X, kill X, a foreign
record appears: live with high priority / long dead / without lifetime and with unknown fields}, spaced
so that the configuration becomes stable in between (100 s > lifetime 60 + keep-alive period) or not
(20 s); keep-alive jitter at both ends of its range; a deviation-bounded search with a 1 s clock grid
(delivery of peering events, keep-alive answers arriving late) on representatives.
Oracle (from the API server's log, the open watch streams and the handler logs - never from kopf's
internal toggles): in every stable configuration exactly the unique highest-priority running operator
holds a watch on the served resource (nobody if the top priority is shared or held by a live foreign
record); a paused operator holds no watch, starts no handler after a drain margin, has no unflagged
daemon; a running operator's own record never expires; after a graceful exit its record is gone; dead
records are cleaned; no handler succeeds twice for one object across pauses (absent kills).
"""
from __future__ import annotations

import datetime
import itertools
from typing import Any

import kopf

from kv import shims
from kv.explorer import Env, Scenario, UserAction, Violation, execute
from kv.harness.change import parse_script
from kv.harness.op import Operator, add_login, daemon_fn, make_settings, scripted
from kv.runner import CheckResult, run_groups
from kv.world import CLUSTER_PEERING, CRDS, EPOCH, EVENTS, KEX, NAMESPACES, Request

LIFETIME = 60
PRIORITIES = {'A': 0, 'B': 100, 'C': 0}
DRAIN = 12.0


def iso(t: float) -> str:
    return (EPOCH + datetime.timedelta(seconds=t)).isoformat()


class PeeringScenario(Scenario):
    name = 'c13'
    prop = 'C13'
    kinds = [NAMESPACES, EVENTS, CRDS, KEX, CLUSTER_PEERING]

    def __init__(self, **params: Any) -> None:
        super().__init__(**params)
        self.horizon = params['horizon']
        self.grid = params.get('grid')
        if params.get('max_steps'):
            self.max_steps = int(params['max_steps'])

    def delays(self, env: Env, req: Request) -> bool:
        return bool(self.params.get('timing')) and req.method == 'patch' and 'clusterkopfpeerings' in req.path

    def serve_fault(self, env: Env, req: Request) -> str | None:
        # scripted: the first keep-alive renewal of the named operator (not its initial touch) is answered with a 500; the client retries
        who = self.params.get('flaky_keepalive')
        if who and req.method == 'patch' and 'clusterkopfpeerings' in req.path and (req.opid or '').split('#')[0] == who \
                and env.now >= float(self.params.get('flaky_after', 30.0)) and not env.counters.get('flaky'):
            env.count('flaky')
            return '500'
        return None

    def allow_time_deviation(self, env: Env) -> bool:
        # only the latency of keep-alive requests is varied: the clock may move while one is in flight
        return bool(self.params.get('timing')) and any('clusterkopfpeerings' in r.path and r.method == 'patch' for r in env.world.pending) \
            and env.time_while_pending < 3

    def allow_early_user(self, env: Env, action: UserAction) -> bool:
        return False

    def setup(self, env: Env) -> None:
        jitter = self.params.get('jitter', 'min')
        shims.set_randint((lambda a, b: a) if jitter == 'min' else (lambda a, b: b))
        env.world.create(CLUSTER_PEERING, None, 'default', {})
        env.memo['ops'] = {}
        env.memo['running'] = {}

    def start_op(self, env: Env, ident: str) -> None:
        n = env.count(f'inc:{ident}')
        opid = ident if n == 1 else f'{ident}#{n}'
        reg = kopf.OperatorRegistry()
        add_login(reg, env.world)
        kopf.on.create('kopfexamples', id='c1', registry=reg)(scripted(env, 'c1', parse_script(['ok'])))
        kopf.on.create('kopfexamples', id='c2', registry=reg)(scripted(env, 'c2', parse_script(['temp', 'ok'])))
        kopf.on.update('kopfexamples', id='u1', registry=reg)(scripted(env, 'u1', parse_script(['ok'])))
        kopf.daemon('kopfexamples', id='dm', registry=reg)(daemon_fn(env, 'dm', reaction='obeys', exit_delay=float(self.params.get('daemon_exit_delay', 0.0))))
        if self.params.get('slow_cleanup'):
            # the operator's exit takes a while (its cleanup handlers run after everything else has stopped, the API session still open)
            kopf.on.cleanup(id='cl', registry=reg)(scripted(env, f'cl-{ident}', parse_script([f"ok~{self.params['slow_cleanup']}"])))
        settings = make_settings(peering__standalone=False, peering__name='default', peering__priority=PRIORITIES[ident],
                                 peering__lifetime=int(self.params.get('lifetime', LIFETIME)), peering__mandatory=True,
                                 networking__error_backoffs=tuple(self.params.get('error_backoffs', ())),
                                 **({'watching__inactivity_timeout': float(self.params['inactivity_timeout'])} if self.params.get('inactivity_timeout') else {}))
        op = Operator(env, opid, reg, settings, identity=ident)
        env.memo['ops'][ident] = op
        env.memo['running'][ident] = opid
        env.log('op-start', ident=ident, opid=opid)
        op.start()

    def script(self, env: Env) -> list[UserAction]:
        out = []
        for at, action, *args in self.params['user']:
            out.append(UserAction(float(at), f"{action}{''.join('-' + str(a) for a in args)}", self._act(action, args)))
        return out

    def _act(self, action: str, args: list[Any]) -> Any:
        def fn(env: Env) -> None:
            w = env.world
            if action == 'start':
                self.start_op(env, args[0])
            elif action == 'stop':
                op = env.memo['ops'].get(args[0])
                if op is not None and args[0] in env.memo['running']:
                    env.log('op-stop', ident=args[0], opid=env.memo['running'].pop(args[0]))
                    op.stop()
            elif action == 'kill':
                if args[0] in env.memo['running']:
                    opid = env.memo['running'].pop(args[0])
                    env.log('op-kill', ident=args[0], opid=opid)
                    env.kill(opid)
            elif action == 'ghost':
                kind = args[0]
                if kind == 'high':
                    rec: dict[str, Any] = {'priority': 1000, 'lifetime': LIFETIME, 'lastseen': iso(env.now)}
                elif kind == 'stale':
                    rec = {'priority': 1000, 'lifetime': LIFETIME, 'lastseen': iso(env.now - 10 * LIFETIME)}
                elif kind == 'west':
                    # a live record written by a tool in another time zone: the same instant, spelled with a UTC offset
                    tz = datetime.timezone(datetime.timedelta(hours=-5))
                    rec = {'priority': 1000, 'lifetime': LIFETIME, 'lastseen': (EPOCH + datetime.timedelta(seconds=env.now)).astimezone(tz).isoformat()}
                elif kind == 'east-stale':
                    tz = datetime.timezone(datetime.timedelta(hours=5))
                    rec = {'priority': 1000, 'lifetime': LIFETIME, 'lastseen': (EPOCH + datetime.timedelta(seconds=env.now - 10 * LIFETIME)).astimezone(tz).isoformat()}
                elif kind == 'odd':
                    rec = {'priority': 1000, 'lastseen': iso(env.now), 'flavour': 'unknown-field', 'namespace': None}
                else:
                    raise ValueError(kind)
                w.merge(CLUSTER_PEERING, None, 'default', {'status': {f'ghost-{kind}': rec}}, actor='foreign')
                env.log('ghost', which=kind, until=env.now + LIFETIME if kind not in ('stale', 'east-stale') else env.now - 9 * LIFETIME)
            elif action == 'create':
                w.create(KEX, 'ns', args[0], {'spec': {'x': 1}})
            elif action == 'edit':
                w.merge(KEX, 'ns', args[0], {'spec': {'x': env.count('edits') + 1}})
            elif action == 'check':
                env.log('checkpoint', label=args[0] if args else '')
            else:
                raise ValueError(action)
        return fn

    # ---- oracle ----
    def check(self, env: Env) -> list[Violation]:
        out: list[Violation] = []
        if env.end_reason == 'stall' or env.loop.stall is not None:
            return [self.viol(env, 'stall', f"the event loop stalled: {env.loop.stall}", clause='safety')]
        if env.end_reason in ('livelock', 'step-budget'):
            return [self.viol(env, 'no-progress', f'execution ended with {env.end_reason}', end=env.end_reason)]
        w = env.world
        exact = not env.deviations
        streams = [s for s in w.streams if s.kind.plural == 'kopfexamples']

        def active_at(opid: str, t: float) -> bool:
            return any(s.opid == opid and s.opened_at <= t and (s.closed_at is None or s.closed_at > t) for s in streams)

        # replay the configuration over time
        running: dict[str, str] = {}
        ghosts: dict[str, float] = {}
        killed_at: dict[str, float] = {}
        last_change = 0.0
        checkpoints: list[tuple[float, dict[str, str], dict[str, float], float, dict[str, float]]] = []
        kills = 0
        for t, k, p in env.obs:
            if k == 'op-start':
                running[p['ident']] = p['opid']
                last_change = t
            elif k == 'op-stop':
                running.pop(p['ident'], None)
                last_change = t
            elif k == 'op-kill':
                running.pop(p['ident'], None)
                killed_at[p['ident']] = t
                last_change = t
                kills += 1
            elif k == 'ghost':
                ghosts[p['which']] = p['until']
                last_change = t
            elif k == 'checkpoint':
                checkpoints.append((t, dict(running), dict(ghosts), last_change, dict(killed_at)))
            elif k == 'operator-exit' and p.get('how') == 'raised' and self.params.get('fatal_keepalive') == p['op'].split('#')[0] \
                    and env.counters.get('flaky'):
                # its keep-alive could not be renewed and the client gave up: an operator that cannot keep its record alive must not go on
                # (it stops as a whole and leaves the field to the others) - from here on it counts as gone, its record as a dead one
                ident = p['op'].split('#')[0]
                running.pop(ident, None)
                killed_at[ident] = t
                last_change = t
            elif k == 'operator-exit' and p.get('how') == 'raised':
                out.append(self.viol(env, 'operator-failed', f"t={t}: operator {p['op']} raised {p.get('error')}", clause='safety'))
        for t, run, gh, changed, killed in checkpoints:
            # the records of killed operators take their configured lifetime to expire (foreign records: their own stated one, or the
            # documented default of 60 - their end is known as `until`); nothing else needs waiting for
            stable_after = (max(LIFETIME, int(self.params.get('lifetime', LIFETIME))) if killed else LIFETIME) + 12.0
            if not exact and t - changed < stable_after + 10:
                continue
            # who is expected to be active
            prios = {ident: PRIORITIES[ident] for ident in run}
            live_ghosts = {g: 1000 for g, until in gh.items() if until > t}
            allp = list(prios.values()) + list(live_ghosts.values())
            expected: set[str] = set()
            if prios and allp:
                top = max(allp)
                holders = [i for i, pr in prios.items() if pr == top]
                if len(holders) == 1 and allp.count(top) == 1:
                    expected = {holders[0]}
            stable = t - changed >= stable_after
            actual = {ident for ident, opid in run.items() if active_at(opid, t)}
            if stable and actual != expected:
                both = len(actual) > 1
                out.append(self.viol(env, 'wrong-active-set', f"t={t}: stable since {changed}; running {prios} (+foreign live records {sorted(live_ghosts)}): "
                                                              f"active (holding a watch) are {sorted(actual)}, expected {sorted(expected)}",
                                     clause='exactly-the-top-one', how='several-active' if both else ('nobody-active' if not actual else 'wrong-one')))
            if len(actual) > 1 and not stable and exact:
                pass   # transitions are judged by the safety clauses below
            # own records never expired, withdrawn after graceful exit, dead ones cleaned
            rec = (w.get(CLUSTER_PEERING, None, 'default') or {})
            # NB: the object at the END is what we have; per-checkpoint states come from the write log
            state = None
            for wr in w.writes:
                if wr['kind'] == 'clusterkopfpeerings' and wr['t'] <= t and wr['post'] is not None:
                    state = wr['post']
            status = (state or {}).get('status') or {}
            for ident in run:
                r = status.get(ident)
                started = next((tt for tt, k, p in env.obs if k == 'op-start' and p['ident'] == ident and tt <= t), t)
                if r is None:
                    if t - started > 5:
                        out.append(self.viol(env, 'own-record-missing', f"t={t}: running operator {ident} has no record in the peering object", clause='keepalive'))
                else:
                    seen = datetime.datetime.fromisoformat(r['lastseen'])
                    deadline = (seen - EPOCH).total_seconds() + int(r.get('lifetime', LIFETIME))
                    if deadline < t:
                        out.append(self.viol(env, 'own-record-expired', f"t={t}: running operator {ident}'s record expired at {deadline}", clause='keepalive'))
            # a gracefully exited operator's record is gone from the moment operator() has returned, and stays gone
            for ident in PRIORITIES:
                te = next((tt for tt, k, p in env.obs if k == 'operator-exit' and p['op'].split('#')[0] == ident and p.get('how') == 'returned' and tt < t), None)
                restarted = any(k == 'op-start' and p['ident'] == ident and te is not None and tt >= te for tt, k, p in env.obs if tt <= t)
                if te is not None and not restarted and ident not in run and ident not in killed and ident in status and exact:
                    out.append(self.viol(env, 'record-back-after-exit', f"t={t}: operator {ident} returned from a graceful exit at {te}, its record is in the peering object "
                                                                        f"(again): {status.get(ident)}", clause='withdrawn'))
            if stable:
                for ident in PRIORITIES:
                    if ident not in run and ident in status and ident not in killed:
                        out.append(self.viol(env, 'record-not-withdrawn', f"t={t}: operator {ident} exited gracefully but its record is still there", clause='withdrawn'))
                for ident, tk in killed.items():
                    if ident not in run and ident in status and run and t - tk > max(LIFETIME, int(self.params.get('lifetime', LIFETIME))) + 70:
                        out.append(self.viol(env, 'dead-record-not-cleaned', f"t={t}: the record of {ident} (killed at {tk}) was never cleaned up", clause='cleaned'))
                for g, until in gh.items():
                    if until < t - 70 and f'ghost-{g}' in status and run:
                        out.append(self.viol(env, 'dead-record-not-cleaned', f"t={t}: the expired foreign record ghost-{g} (dead since {until}) is still there", clause='cleaned'))
        # -- safety over the whole run --
        # an operator that has returned from a graceful exit writes nothing any more (its record stays withdrawn)
        exited_pos: dict[str, tuple[int, float]] = {}
        for i, (t, k, p) in enumerate(env.obs):
            if k == 'operator-exit':
                exited_pos.setdefault(p['op'], (i, t))
            elif k == 'write' and p['actor'].startswith('op:'):
                opid = p['actor'].split(':')[1]
                if opid in exited_pos:      # by position in the observation log, not by (equal) virtual time
                    wr = w.writes[p['idx']]
                    rec_back = wr['post'] is not None and opid.split('#')[0] in ((wr['post'].get('status') or {}))
                    out.append(self.viol(env, 'write-after-exit', f"t={t}: operator {opid} returned at {exited_pos[opid][1]}, yet a {wr['verb']} of {wr['kind']}/{wr['name']} by it "
                                                                  f"landed afterwards{' and put its peering record back' if rec_back else ''}", clause='withdrawn', record_back=rec_back))
        # an operator pauses (closes its watch while it keeps running) only for a LIVE peer of higher or equal priority
        if exact:
            timeline = [(wr['t'], wr['post']) for wr in w.writes if wr['kind'] == 'clusterkopfpeerings' and wr['post'] is not None]
            ends: dict[str, float] = {}
            for t, k, p in env.obs:
                if k in ('op-stop', 'op-kill'):
                    ends[p['opid']] = t
                if k == 'srv' and p.get('fault') and self.params.get('fatal_keepalive') and (p.get('op') or '').split('#')[0] == self.params['fatal_keepalive']:
                    ends.setdefault(p['op'], t)     # the operator goes down from the moment its keep-alive failed for good

            def live_blockers(ident: str, t0: float, t1: float) -> list[str]:
                found = []
                for i, (tw, post) in enumerate(timeline):
                    t_next = timeline[i + 1][0] if i + 1 < len(timeline) else float('inf')
                    if t_next < t0 or tw > t1:
                        continue      # this version of the peering object was not current inside the window
                    for key, r in ((post.get('status') or {}).items()):
                        if key == ident or not isinstance(r, dict):
                            continue
                        try:
                            seen = (datetime.datetime.fromisoformat(r['lastseen']) - EPOCH).total_seconds()
                            deadline = seen + int(r.get('lifetime', LIFETIME))
                            prio = int(r.get('priority', 0))
                        except Exception:
                            continue
                        if prio >= PRIORITIES[ident] and deadline > max(t0, tw):
                            found.append(key)
                return found
            # ... and opens one only when no live peer of higher or equal priority has been showing for the last second
            def blockers_in_state_at(ident: str, tau: float) -> list[str]:
                """Live records of higher/equal priority in the LATEST version of the peering object at time tau."""
                post = None
                for tw, p2 in timeline:
                    if tw <= tau:
                        post = p2
                found = []
                for key, r in (((post or {}).get('status') or {}).items()):
                    if key == ident or not isinstance(r, dict):
                        continue
                    try:
                        seen = (datetime.datetime.fromisoformat(r['lastseen']) - EPOCH).total_seconds()
                        if int(r.get('priority', 0)) >= PRIORITIES[ident] and seen + int(r.get('lifetime', LIFETIME)) > tau:
                            found.append(key)
                    except Exception:
                        continue
                return found
            for st in streams:
                if st.opid is None:
                    continue
                ident = st.opid.split('#')[0]
                if ident not in PRIORITIES or ends.get(st.opid, float('inf')) <= st.opened_at:
                    continue
                both = set(blockers_in_state_at(ident, st.opened_at - 1.0)) & set(blockers_in_state_at(ident, st.opened_at))
                if both:
                    out.append(self.viol(env, 'active-despite-live-blocker',
                                         f"t={st.opened_at}: operator {st.opid} (priority {PRIORITIES[ident]}) opened a watch although the peering object has been "
                                         f"showing the live record(s) {sorted(both)} of higher or equal priority", clause='paused-while-live-peer'))
            for st in streams:
                if st.closed_at is None or st.opid is None:
                    continue
                ident = st.opid.split('#')[0]
                if ident not in PRIORITIES or ends.get(st.opid, float('inf')) <= st.closed_at:
                    continue
                if st.closed_at >= self.horizon - 1:
                    continue
                if not live_blockers(ident, st.closed_at - 1.0, st.closed_at):
                    out.append(self.viol(env, 'paused-without-live-blocker',
                                         f"t={st.closed_at}: running operator {st.opid} (priority {PRIORITIES[ident]}) closed its watch although the peering "
                                         f"object showed no live peer of higher or equal priority", clause='paused-only-for-live-peers'))
        # a paused operator (no watch for > DRAIN seconds) starts no change handler
        for t, k, p in env.obs:
            if k == 'call' and p.get('reason') in ('create', 'update') and p.get('op'):
                opid = p['op']
                recently = any(s.opid == opid and s.opened_at <= t and (s.closed_at is None or s.closed_at > t - DRAIN) for s in streams)
                if not recently:
                    out.append(self.viol(env, 'handler-while-paused', f"t={t}: {p['id']} invoked by {opid}, which holds no watch since more than {DRAIN}s", clause='paused'))
        # no handler succeeds twice for one object (absent kills)
        if not kills:
            succ: dict[tuple[str, str, str], list[tuple[float, str]]] = {}
            for t, k, p in env.obs:
                if k == 'call' and p.get('reason') in ('create', 'update') and p['outcome'].split(',')[0] == 'ok':
                    succ.setdefault((p['uid'], p['id'], p['reason'] + ':' + str(p['essence'])), []).append((t, p['op']))
            for key, lst in succ.items():
                if len(lst) > 1:
                    out.append(self.viol(env, 'handled-twice', f"handler {key[1]} succeeded {len(lst)} times for object {key[0]} ({key[2]}): {lst}", clause='no-double-handling',
                                         same_operator=len({o for _, o in lst}) == 1))
        # two operators actively handling at the same time in a stable phase is covered by wrong-active-set
        # "daemons stopped ... no handler executed twice because of the pause": a daemon that is still on its way out when the operator resumes
        # is not joined by a second instance of itself (one instance per object and daemon at any time)
        live_dm: dict[tuple[str, str, str], float] = {}
        for t, k, p in env.obs:
            if k == 'daemon-enter':
                key = (p['op'], p['uid'], p['id'])
                if key in live_dm:
                    out.append(self.viol(env, 'handled-twice', f"t={t}: daemon {p['id']} of {p['name']} started in {p['op']} while its previous instance (since {live_dm[key]}) "
                                                               f"had not exited yet", clause='pause', how='daemon-two-instances'))
                live_dm[key] = t
            elif k == 'daemon-exit':
                live_dm.pop((p['op'], p['uid'], p['id']), None)
            elif k == 'kill':
                for key in [k2 for k2 in live_dm if k2[0] == p['op']]:
                    live_dm.pop(key)
        return out


def histories(depth: int) -> list[list[tuple]]:
    alphabet: list[tuple] = [('start', 'B'), ('start', 'C'), ('stop', 'A'), ('stop', 'B'), ('kill', 'A'), ('kill', 'B'), ('start', 'A'),
                             ('ghost', 'high'), ('ghost', 'stale'), ('ghost', 'odd'), ('ghost', 'west'), ('ghost', 'east-stale')]
    out = []
    for d in range(1, depth + 1):
        for combo in itertools.product(alphabet, repeat=d):
            run = {'A'}
            ok = True
            for a in combo:
                if a[0] == 'start':
                    if a[1] in run:
                        ok = False
                    run.add(a[1])
                elif a[0] in ('stop', 'kill'):
                    if a[1] not in run:
                        ok = False
                    run.discard(a[1])
            if len([a for a in combo if a[0] == 'ghost']) > 1:
                ok = False
            if ok:
                out.append(list(combo))
    return out


def build(history: list[tuple], spacing: float, jitter: str, **kw: Any) -> PeeringScenario:
    user: list[tuple] = [(0.0, 'start', 'A'), (2.0, 'create', 'a')]
    t = 10.0
    for i, a in enumerate(history):
        user.append((t - 0.5, 'check', f'before-{i}'))
        user.append((t, *a))
        if i % 2 == 1:
            user.append((t + 1.0, 'edit', 'a'))
        t += spacing
    user.append((t + 90.0 - spacing if spacing < 90 else t, 'check', 'final'))
    tend = user[-1][0]
    user.append((tend + 1.0, 'edit', 'a'))
    user.append((tend + 40.0, 'check', 'last'))
    return PeeringScenario(user=user, horizon=tend + 45.0, history=[list(a) for a in history], spacing=spacing, jitter=jitter, **kw)


def run(tier: str, seed: int) -> CheckResult:
    depth = 2 if tier == 'quick' else 3
    hist = [build(h, sp, j) for h in histories(depth) for sp, j in ((100.0, 'min'), (100.0, 'max'), (20.0, 'min'))]
    # operators configured with a lifetime other than the documented default of records that do not state theirs (60)
    hist += [build(h, sp, 'min', lifetime=lt) for h in histories(depth) if any(a[0] == 'ghost' for a in h) for sp in (100.0, 20.0) for lt in (30, 120)]
    # a pause shorter than the time the daemon needs to leave: a higher-priority operator comes and goes again within seconds
    for sp in (2.0, 3.0, 5.0):
        for h in ([('start', 'B'), ('stop', 'B')], [('start', 'B'), ('kill', 'B')], [('ghost', 'high')]):
            hist.append(build(h, sp, 'min', daemon_exit_delay=8.0))
    # a graceful exit while a keep-alive renewal is in its retry backoff (the API answered 500): the record must stay withdrawn
    for stop_at in (66.0, 67.5, 68.0, 69.0):
        user = [(0.0, 'start', 'A'), (2.0, 'create', 'a'), (10.0, 'start', 'B'), (stop_at, 'stop', 'B'), (stop_at + 20.0, 'check', 'after'), (stop_at + 100.0, 'check', 'final')]
        hist.append(PeeringScenario(user=user, horizon=stop_at + 105.0, history=[['start', 'B'], ['stop', 'B']], spacing=0.0, jitter='min',
                                    flaky_keepalive='B', flaky_after=30.0, error_backoffs=[3.0]))
        hist.append(PeeringScenario(user=user, horizon=stop_at + 105.0, history=[['start', 'B'], ['stop', 'B']], spacing=0.0, jitter='min',
                                    flaky_keepalive='B', flaky_after=30.0, error_backoffs=[3.0], slow_cleanup=6))
    # lifetimes of a day and more (a record states its lifetime in seconds): renewed before it expires, and a lower-priority operator
    # stays paused for as long as the higher one lives - judged an hour, most of a day, and more than a day after the start
    for lt in ((90000,) if tier == 'quick' else (86400, 90000, 173400)):
        for h in ([('start', 'B')], [('start', 'C')], [('start', 'B'), ('stop', 'A')], [('start', 'B'), ('kill', 'A')]):
            user = [(0.0, 'start', 'A'), (2.0, 'create', 'a')]
            t = 10.0
            for a in h:
                user.append((t, *a))
                t += 30.0
            user += [(4000.0, 'check', 'hour'), (4001.0, 'edit', 'a'), (80000.0, 'check', 'day'), (lt + 5000.0, 'check', 'renewed'), (lt + 5001.0, 'edit', 'a'),
                     (lt + 5100.0, 'check', 'final')]
            # (a paused operator polls its daemons every second: a day takes some 10^5 loop steps; the idle watch is not re-opened meanwhile)
            hist.append(PeeringScenario(user=user, horizon=lt + 5150.0, history=[list(a) for a in h], spacing=30.0, jitter='min', lifetime=lt,
                                        max_steps=3_000_000, inactivity_timeout=10.0 * lt))
    # the keep-alive renewal of the ACTIVE operator fails for good (500, no retries configured): it must not stay active with a record
    # that nobody renews - it stops, and the next one takes over alone
    for who, others in (('B', ['A']), ('B', ['A', 'C'])):
        user = [(0.0, 'start', 'A'), (2.0, 'create', 'a'), (10.0, 'start', 'B')] + ([(12.0, 'start', 'C')] if 'C' in others else []) + \
               [(100.0, 'check', 'soon'), (150.0, 'edit', 'a'), (200.0, 'check', 'settled'), (260.0, 'check', 'final')]
        hist.append(PeeringScenario(user=user, horizon=265.0, history=[['start', 'B']], spacing=0.0, jitter='min',
                                    flaky_keepalive=who, fatal_keepalive=who, flaky_after=30.0, error_backoffs=[]))
    reps = [build(h, 100.0, j, timing=True, grid=1.0) for h in ([('start', 'B')], [('start', 'B'), ('kill', 'B')], [('start', 'C')]) for j in ('min', 'max')]
    if tier == 'quick':
        groups = [('histories', hist, 0, 120.0), ('keepalive-latency', reps, 1, 60.0)]
    else:
        groups = [('histories', hist, 0, 900.0), ('keepalive-latency', reps, 2, 900.0)]
    stats, viols, info, nscen = run_groups(groups, seed=seed)
    return CheckResult(
        prop='C13', tier=tier, seed=seed, stats=stats, violations=viols, scenarios=nscen,
        bound_requested=max(g[2] for g in groups), extra={'groups': info, 'history_depth': depth},
        rule="operators A (priority 0), B (100), C (0) as whole kopf.operator() instances sharing one loop, clock and ClusterKopfPeering object "
             "(lifetime 60); A starts first; every history to depth 2 (quick) / 3 over {start B, start C, stop A/B, kill A/B, restart A, foreign record "
             "live-high / long-dead / odd} x spacing {100 s (stable in between), 20 s} x keep-alive jitter {5, 10}; checkpoints before every action "
             "and at the end; 'keepalive-latency' group: deviation-bounded search where the clock moves (1 s grid) while keep-alive PATCHes are in "
             "flight; non-trivial = outcome differs from the default schedule",
        assumptions=["'active' = holds an open watch on the served resource (observed at the fake API server), 'stable' = unchanged for lifetime + 12 s",
                     "a handler started within 12 s after the operator lost its watch counts as draining already queued events",
                     "keep-alive latency is bounded by 3 late steps of 1 s, below kopf's own safety margin of 5 s"])


def scenario_from(name: str, params: dict[str, Any]) -> Scenario:
    return PeeringScenario(**params)


def replay(rec: dict[str, Any]) -> int:
    env = execute(scenario_from(rec['scenario'], rec['params']), rec['labels'] or [])
    viols = getattr(env, 'violations', [])
    for t, k, p in env.obs:
        if k in ('user', 'op-start', 'op-stop', 'op-kill', 'ghost', 'operator-exit') or (k == 'call' and p.get('reason')):
            print(f'{t:8.3f} {k:10s}', {kk: vv for kk, vv in p.items() if kk in ('name', 'ident', 'opid', 'which', 'id', 'op', 'how', 'error', 'outcome')})
    for s in env.world.streams:
        if s.kind.plural == 'kopfexamples':
            print('   watch', s.opid, s.opened_at, s.closed_at)
    for v in viols:
        print('VIOLATION', v.kind, v.message)
    return 1 if viols else 0
