"""
C02 Recorded handler progress governs invocation (no re-run of finished handlers).

Subject: the closed loop watcher -> process_resource_event -> handlers -> progress storage ->
PATCH -> (fake API server) -> watch event, with operator kills/restarts.
Search: handler outcome scripts x lifecycles x foreign events, every placement of the foreign
event / response delays / kills (before and after the server applied the in-flight write) up to
the deviation bound.
Oracle (all from the invocation log, the views given to handlers, and the server's write log,
decoded by readers independent of kopf):
 (a) no handler is invoked on a view that already records its success/failure;
 (b) retry kwarg == recorded attempts of the view;
 (c) progress records are purged / last-handled is written exactly by the write that follows
     the step in which the last selected handler finished - never earlier, and then completely;
 (d) without crashes/lost or late responses/late echoes: at most one success per handler per cycle.
"""
from __future__ import annotations

import itertools
from typing import Any

from kv.explorer import Env, Scenario, Violation, execute
from kv.harness.change import (ChangeScenario, essence_ref, finished, last_handled, progress_records)
from kv.runner import CheckResult, run_groups

FINAL = {'ok': 'success', 'perm': 'failure'}


class C02Scenario(ChangeScenario):
    name = 'c02'
    prop = 'C02'

    def extra(self, env: Env) -> Any:
        yield from super().extra(env)
        if self.params.get('kills') and env.counters.get('kills', 0) < self.params.get('max_kills', 1):
            p = env.memo.get('pipeline')
            if p is not None:
                mine = [r for r in env.world.pending if r.opid == p.opid and r.state == 'new' and r.method == 'patch']
                if mine:
                    def go(req: Any = mine[0]) -> None:
                        env.world.apply(req)
                        env.log('srv', verb='apply-then-kill', **req.brief())
                        self.kill_and_restart(env)
                    yield f'killafter:{p.opid}', go

    # which top-level handlers a cycle of this reason has to complete
    def selected(self, reason: str) -> list[str]:
        return [h['id'] for h in self.params['handlers'] if h['on'] == reason]

    def children(self, hid: str) -> list[str]:
        return self.descendants(hid)

    def check(self, env: Env) -> list[Violation]:
        out: list[Violation] = []
        if env.end_reason in ('stall', 'livelock', 'step-budget'):
            return [self.viol(env, 'no-progress', f'execution ended with {env.end_reason}', end=env.end_reason)]
        ids = self.handler_ids()
        has_resume = any(h['on'] == 'resume' for h in self.params['handlers'])
        # The statement's carve-out: crashes, lost responses, echo delays beyond the consistency timeout
        # (= a handler ran on a view older than the operator's own last write), pauses.
        disturbed = False
        own_rv: dict[str, int] = {}               # object name -> newest version returned to the operator by its own PATCH
        post_rv = {r.rid: int(r.post['metadata']['resourceVersion']) for r in env.world.requests
                   if r.method == 'patch' and r.status == 200 and isinstance(r.post, dict)}
        cycles: dict[str, dict[str, Any]] = {}    # uid -> open cycle

        def is_final(cyc: dict, hid: str) -> bool:
            kids = self.children(hid)
            return hid in cyc['failed'] or (hid in cyc['done'] and all(k in cyc['done'] for k in kids))

        resume_ids = {h['id'] for h in self.params['handlers'] if h['on'] == 'resume'}
        resume_leaves = {i for h in resume_ids for i in [h] + self.children(h) if not self.children(i)}   # a parent's own return is no success yet
        resumed: dict[tuple[str, str, str], float] = {}   # (process, uid, resume handler) -> when it succeeded

        timeout = float((self.params.get('settings') or {}).get('persistence__consistency_timeout', 5.0))
        own_rv_at: dict[str, float] = {}          # ... and when it was returned

        def stale_is_carveout(p: dict, t: float) -> bool:
            """A handler on a view older than the operator's own last write: the statement's carve-out if the echo has been outstanding
            for the whole consistency timeout - and the very thing that must not happen before that."""
            return t >= own_rv_at.get(p.get('name'), float('-inf')) + timeout - 1e-9

        for t, k, p in env.obs:
            if k == 'call' and p.get('rv') is not None and int(p['rv']) < own_rv.get(p.get('name'), 0) and stale_is_carveout(p, t):
                disturbed = True   # a stale view (the echo was later than the consistency timeout): the statement's carve-out
            if k == 'call' and p['id'] in resume_leaves and p['outcome'].split(',')[0] == 'ok':
                # (e) a resume handler's recorded success holds for the process, whatever cause the cycle continues under
                key = (p['op'], p['uid'], p['id'])
                if key in resumed and not disturbed:
                    out.append(self.viol(env, 'resume-rerun', f"t={t}: resume handler {p['id']} succeeded again (retry={p['retry']}, reason={p.get('reason')}) in process "
                                                              f"{p['op']}; it had succeeded at t={resumed[key]}", clause='a', how='across-superseding-cause'))
                resumed.setdefault(key, t)
            if k == 'kill' or (k == 'srv' and p.get('fault')) or k == 'stop':
                cycles.clear()  # in-memory knowledge is gone / a write was lost: re-derive from records
                if k != 'stop':
                    disturbed = True
                continue
            if k == 'srv' and p.get('rid') in post_rv and p['verb'] in ('serve', 'respond'):
                name = p['path'].rstrip('/').split('/')[-1 if not p['path'].endswith('/status') else -2]
                if post_rv[p['rid']] > own_rv.get(name, 0):
                    own_rv[name] = post_rv[p['rid']]
                    own_rv_at[name] = t
                continue
            if k in ('deliver', 'write'):
                for cyc in cycles.values():
                    if cyc.get('closing'):
                        cyc['step_over'] = True
            if k == 'call' and p.get('reason') in ('create', 'update', 'delete', 'resume') and p['id'] in ids:
                hid, uid, reason = p['id'], p['uid'], p['reason']
                view = {'metadata': {'annotations': p['anns']}, 'status': p.get('status')}
                recs = progress_records(view, ids)
                rec = recs.get(hid)
                if finished(rec):
                    out.append(self.viol(env, 'rerun-finished',
                                         f"t={t}: handler {hid} invoked (retry={p['retry']}) on a view that records it as finished: {rec}",
                                         clause='a', handler_kind='sub' if '/' in hid else 'top'))
                want = (rec or {}).get('retries') or 0
                if p['retry'] != want:
                    out.append(self.viol(env, 'retry-mismatch',
                                         f"t={t}: handler {hid} invoked with retry={p['retry']} but the view records {want} attempts",
                                         clause='b'))
                if int(p['rv']) < own_rv.get(p['name'], 0) and stale_is_carveout(p, t):
                    disturbed = True   # a stale view: the echo was later than the consistency timeout
                cyc = cycles.get(uid)
                if cyc is None or cyc['reason'] != reason or (cyc.get('closing') and cyc.get('step_over')):
                    cyc = cycles[uid] = {'reason': reason, 'done': {h for h, r in recs.items() if finished(r)},
                                         'succ': set(), 'closing': False,
                                         'failed': {h for h, r in recs.items() if r and r.get('failure')}, 'last_ess': None, 'opened': t}
                cyc['last_ess'] = essence_ref(p['raw'])
                kind = p['outcome'].split(',')[0]
                if kind in FINAL:
                    if kind == 'ok' and not self.children(hid):
                        if hid in cyc['succ'] and not disturbed:
                            out.append(self.viol(env, 'double-success',
                                                 f"t={t}: handler {hid} succeeded twice in one {reason} cycle (opened at {cyc['opened']})",
                                                 clause='d'))
                        cyc['succ'].add(hid)
                    cyc['done'].add(hid)
                    if kind == 'perm':
                        cyc['failed'].add(hid)
                else:
                    cyc['done'].discard(hid)
                # resume handlers mixed into this cycle (they carry a record in the view, or ran in it) have to finish with it
                cyc.setdefault('seen', set()).add(hid)
                mixed = [h for h in resume_ids if reason != 'resume' and (h in recs or h in cyc['seen'])]
                must = self.selected(reason) + mixed
                if must and all(is_final(cyc, h) for h in must):
                    cyc['closing'] = True
                continue
            if k == 'write' and p['actor'].startswith('op:') and p['objkind'] == self.kind.plural:
                w = env.world.writes[p['idx']]
                pre, post = w['pre'], w['post']
                if pre is None:
                    continue
                uid = pre['metadata']['uid']
                recs_pre = progress_records(pre, ids)
                recs_post = progress_records(post, ids) if post is not None else {}
                lh_changed = post is not None and last_handled(post) != last_handled(pre)
                purged = bool(recs_pre) and not recs_post and post is not None
                cyc = cycles.get(uid)
                closing = bool(cyc and cyc['closing'])
                if (lh_changed or purged) and not closing and not has_resume:
                    # Who has not finished, by the records of the object itself plus this step's outcomes?
                    reason = cyc['reason'] if cyc else None
                    unfinished = [h for h in (self.selected(reason) if reason else [])
                                  if not (cyc and is_final(cyc, h))]
                    if cyc is not None and unfinished:
                        out.append(self.viol(env, 'closed-early',
                                             f"t={t}: write {'sets last-handled' if lh_changed else 'purges progress'} while {unfinished} of the {reason} cycle are unfinished",
                                             clause='c', what='lh' if lh_changed else 'purge'))
                if closing and cyc is not None:
                    leftover = [h for h in recs_post]
                    if leftover and not disturbed:
                        out.append(self.viol(env, 'closed-incompletely',
                                             f"t={t}: the write after the closing step leaves progress records {leftover}",
                                             clause='c', what='leftover'))
                    if post is not None and cyc['reason'] in ('create', 'update') and not disturbed:
                        if last_handled(post) != cyc['last_ess']:
                            out.append(self.viol(env, 'last-handled-wrong',
                                                 f"t={t}: after the closing step last-handled is {last_handled(post)}, the handlers saw {cyc['last_ess']}",
                                                 clause='c', what='lh-value'))
                    cycles.pop(uid, None)
        # (f) "a handler still due is invoked ... the cycle is closed (progress records removed)": nothing is left half-way.
        # Judged when the world has been quiet for a long time, nothing is owed, and nothing disturbed the run.
        t_last = max([t for t, k, p in env.obs if k in ('user', 'kill', 'start', 'extra')] + [0.0])
        if not disturbed and not env.deviations and not env.owes() and env.end_reason == 'horizon' and env.now >= t_last + 25 \
                and env.memo.get('pipeline') is not None:
            for (ns, name), obj in env.world.objects[self.kind.key].items():
                left = progress_records(obj, ids)
                if left:
                    due = [h for h, r in left.items() if not finished(r)]
                    out.append(self.viol(env, 'cycle-never-closed',
                                         f"object {name}: {env.now - t_last:.0f}s after the last external action it still carries the progress records "
                                         f"{sorted(left)} (unfinished: {due}); handlers still due were never invoked / the cycle was never closed",
                                         clause='c', what='left-forever'))
        return out


SCRIPTS_Q = [['ok'], ['temp', 'ok'], ['arb', 'ok'], ['perm'], ['temp', 'temp', 'ok'], ['temp', 'perm']]
SCRIPTS_T = SCRIPTS_Q + [['arb', 'arb', 'ok'], ['temp', 'arb', 'ok'], ['arb', 'perm'], ['ok', 'temp', 'ok']]


def scenarios(tier: str) -> tuple[list[C02Scenario], list[C02Scenario], list[C02Scenario]]:
    scripts = SCRIPTS_Q if tier == 'quick' else SCRIPTS_T
    base_user = [(1.0, 'create', 'a')]
    plain: list[C02Scenario] = []
    timing: list[C02Scenario] = []
    crash: list[C02Scenario] = []
    settings = {'persistence__consistency_timeout': 5.0}
    # 1. two create handlers + the update/delete cycles, every script pair, every lifecycle.
    for s1, s2 in itertools.product(scripts, scripts):
        for lc in ('asap', 'one_by_one', 'all_at_once'):
            handlers = [dict(id='c1', on='create', script=s1, backoff=3), dict(id='c2', on='create', script=s2, backoff=3),
                        dict(id='u1', on='update', script=s2, backoff=3), dict(id='u2', on='update', script=s1, backoff=3),
                        dict(id='d1', on='delete', script=s1 if s1[-1] != 'perm' else ['ok'], backoff=3)]
            user = base_user + [(30.0, 'spec', 'a', 2), (60.0, 'delete', 'a')]
            plain.append(C02Scenario(handlers=handlers, lifecycle=lc, user=user, settings=settings, horizon=90.0,
                                     delays=False, early_user=False, time_dev=False))
    # 2. foreign events at explorer-chosen points + response delays + late echoes (timing search)
    for s1, s2 in [(['temp', 'ok'], ['ok']), (['ok'], ['temp', 'ok']), (['arb', 'ok'], ['perm']), (['ok'], ['ok'])]:
        for lc in ('asap', 'one_by_one', 'all_at_once'):
            for foreign in (('status', 'a', 1), ('label', 'a', 'l', 'v'), ('spec', 'a', 7)):
                for storage in ('annotations', 'status'):
                    if storage == 'status' and (lc != 'asap' or foreign[0] != 'status'):
                        continue
                    handlers = [dict(id='c1', on='create', script=s1, backoff=3), dict(id='c2', on='create', script=s2, backoff=3),
                                dict(id='u1', on='update', script=s1, backoff=3), dict(id='u2', on='update', script=s2, backoff=3)]
                    user = base_user + [(8.0, *foreign), (20.0, 'spec', 'a', 2)]
                    timing.append(C02Scenario(handlers=handlers, lifecycle=lc, user=user, settings=settings, horizon=45.0,
                                              storage=storage))
    # 3. sub-handlers: a parent with two children and a sibling
    for sp, sa, sb in itertools.product([['ok'], ['temp', 'ok'], ['ok', 'perm'], ['ok', 'ok', 'perm']], scripts[:4], scripts[:3]):
        for lc in ('asap', 'all_at_once'):
            handlers = [dict(id='p', on='create', script=sp, backoff=3), dict(id='c2', on='create', script=['ok'], backoff=3)]
            subs = {'p': [dict(id='s1', script=sa), dict(id='s2', script=sb)]}
            plain.append(C02Scenario(handlers=handlers, subs=subs, lifecycle=lc, user=base_user, settings=settings,
                                     horizon=40.0, delays=False, early_user=False, time_dev=False))
    # 3b. nested sub-handlers: parent -> mid -> two leaves (+ a sibling of mid), then a second cycle of the same handlers
    for sm, sa, sb in itertools.product([['ok'], ['temp', 'ok']], scripts[:4], scripts[:2]):
        for lc in ('asap', 'all_at_once'):
            handlers = [dict(id='p', on='create', script=['ok'], backoff=3), dict(id='p2', on='update', script=['ok'], backoff=3)]
            tree = [dict(id='mid', script=sm, subs=[dict(id='la', script=sa), dict(id='lb', script=sb)]), dict(id='s2', script=['ok'])]
            subs = {'p': tree, 'p2': [dict(id='mid', script=['ok'], subs=[dict(id='la', script=['ok'])])]}
            plain.append(C02Scenario(handlers=handlers, subs=subs, lifecycle=lc, user=base_user + [(30.0, 'spec', 'a', 2)], settings=settings,
                                     horizon=60.0, delays=False, early_user=False, time_dev=False))
    timing.append(C02Scenario(handlers=[dict(id='p', on='create', script=['ok'], backoff=3), dict(id='c2', on='create', script=['temp', 'ok'])],
                              subs={'p': [dict(id='s1', script=['temp', 'ok']), dict(id='s2', script=['ok'])]},
                              lifecycle='asap', user=base_user + [(6.0, 'status', 'a', 1)], settings=settings, horizon=40.0))
    # 4. crash points: kill before / after the server applied each in-flight write, then restart
    for s1, s2 in [(['temp', 'ok'], ['ok']), (['ok'], ['arb', 'ok']), (['perm'], ['ok']), (['ok'], ['ok'])]:
        for lc in ('asap', 'one_by_one', 'all_at_once'):
            handlers = [dict(id='c1', on='create', script=s1, backoff=3), dict(id='c2', on='create', script=s2, backoff=3),
                        dict(id='u1', on='update', script=s2, backoff=3), dict(id='d1', on='delete', script=['ok'])]
            user = base_user + [(20.0, 'spec', 'a', 2), (40.0, 'delete', 'a')]
            crash.append(C02Scenario(handlers=handlers, lifecycle=lc, user=user, settings=settings, horizon=70.0,
                                     kills=True, delays=False, early_user=False, time_dev=False))
    crash.append(C02Scenario(handlers=[dict(id='p', on='create', script=['ok']), dict(id='c2', on='create', script=['temp', 'ok'])],
                             subs={'p': [dict(id='s1', script=['temp', 'ok']), dict(id='s2', script=['ok'])]},
                             lifecycle='asap', user=base_user, settings=settings, horizon=40.0, kills=True,
                             delays=False, early_user=False, time_dev=False))
    # 5. resume handlers mixed into the cycle after a graceful restart in mid-cycle
    for lc in ('asap', 'all_at_once'):
        handlers = [dict(id='c1', on='create', script=['temp', 'ok'], backoff=3), dict(id='r1', on='resume', script=['ok']),
                    dict(id='u1', on='update', script=['temp', 'ok'])]
        user = base_user + [(2.0, 'restart'), (20.0, 'spec', 'a', 2), (21.0, 'restart')]
        timing.append(C02Scenario(handlers=handlers, lifecycle=lc, user=user, settings=settings, horizon=50.0))
    # 7. the same multi-step cycles on a ReplicaSet owned by a Deployment (kopf names its annotations differently there)
    for s1, s2 in [(['temp', 'ok'], ['ok']), (['ok'], ['temp', 'temp', 'ok']), (['arb', 'ok'], ['perm'])]:
        for lc in ('asap', 'all_at_once'):
            handlers = [dict(id='c1', on='create', script=s1, backoff=3), dict(id='c2', on='create', script=s2, backoff=3),
                        dict(id='u1', on='update', script=s2, backoff=3), dict(id='d1', on='delete', script=['temp', 'ok'], backoff=3)]
            user = base_user + [(30.0, 'spec', 'a', 2), (60.0, 'delete', 'a')]
            plain.append(C02Scenario(handlers=handlers, lifecycle=lc, user=user, settings=settings, horizon=90.0, rs=True,
                                     delays=False, early_user=False, time_dev=False))
    crash.append(C02Scenario(handlers=[dict(id='c1', on='create', script=['temp', 'ok'], backoff=3), dict(id='c2', on='create', script=['ok'], backoff=3)],
                             lifecycle='asap', user=base_user, settings=settings, horizon=40.0, kills=True, rs=True,
                             delays=False, early_user=False, time_dev=False))
    # 8. one function registered under two ids (stacked @on.create + @on.update), in cycles of more than one step
    for s2 in (['temp', 'ok'], ['ok']):
        for lc in ('asap', 'one_by_one'):
            handlers = [dict(id='sc', on='create', script=['ok'], shared='S'), dict(id='su', on='update', script=['ok'], shared='S'),
                        dict(id='c2', on='create', script=s2, backoff=3), dict(id='u2', on='update', script=s2, backoff=3)]
            plain.append(C02Scenario(handlers=handlers, lifecycle=lc, user=base_user + [(30.0, 'spec', 'a', 2)], settings=settings, horizon=60.0,
                                     delays=False, early_user=False, time_dev=False))
            handlers2 = [handlers[1], handlers[0], handlers[3], handlers[2]]     # the update declaration registered first
            plain.append(C02Scenario(handlers=handlers2, lifecycle=lc, user=base_user + [(30.0, 'spec', 'a', 2)], settings=settings, horizon=60.0,
                                     delays=False, early_user=False, time_dev=False))
    # 6. a resume cycle (one resume handler done, one waiting for its retry) superseded by an essential change
    for lc in ('asap', 'one_by_one'):
        handlers = [dict(id='c1', on='create', script=['ok']), dict(id='r1', on='resume', script=['ok']),
                    dict(id='r2', on='resume', script=['temp', 'ok']), dict(id='u1', on='update', script=['ok'])]
        plain.append(C02Scenario(handlers=handlers, lifecycle=lc, user=base_user + [(10.0, 'restart')], settings=settings, horizon=45.0,
                                 delays=False, early_user=False, time_dev=False))
        for edit in (('label', 'a', 'l', 'v'), ('spec', 'a', 2)):
            user = base_user + [(10.0, 'restart'), (11.0, *edit)]
            plain.append(C02Scenario(handlers=handlers, lifecycle=lc, user=user, settings=settings, horizon=40.0,
                                     delays=False, early_user=False, time_dev=False))
            timing.append(C02Scenario(handlers=handlers, lifecycle=lc, user=user, settings=settings, horizon=40.0))
    # 9. several foreign writes land between the view a step was computed from and the step's own PATCH (handlers of one step that each
    # touch the object through another client): their events reach the operator before the echo of its PATCH, one after the other
    for lc in ('all_at_once', 'one_by_one'):
        for s1, s2 in ((['ok+status1'], ['ok+label1']), (['ok+status1'], ['temp', 'ok+label1']), (['ok+label1', ], ['ok+status2'])):
            handlers = [dict(id='c1', on='create', script=s1, backoff=3), dict(id='c2', on='create', script=s2, backoff=3),
                        dict(id='u1', on='update', script=s1, backoff=3), dict(id='u2', on='update', script=s2, backoff=3)]
            plain.append(C02Scenario(handlers=handlers, lifecycle=lc, user=base_user + [(20.0, 'spec', 'a', 2)], settings=settings, horizon=45.0,
                                     delays=False, early_user=False, time_dev=False))
    # 9b. ... and ONE such foreign write is enough when a raw-event handler of the same kind puts something into the patch of every event
    # (an idempotent note): the cycle of the stale event carries a patch of its own while the echo of the step's PATCH is still awaited
    for lc in ('all_at_once', 'one_by_one', 'asap'):
        for s1, s2 in ((['ok+status1'], ['ok']), (['ok'], ['ok+label1']), (['ok+status1'], ['temp', 'ok'])):
            handlers = [dict(id='ev', on='event', script=['ok+seen']),
                        dict(id='c1', on='create', script=s1, backoff=3), dict(id='c2', on='create', script=s2, backoff=3),
                        dict(id='u1', on='update', script=s1, backoff=3), dict(id='u2', on='update', script=s2, backoff=3)]
            plain.append(C02Scenario(handlers=handlers, lifecycle=lc, user=base_user + [(20.0, 'spec', 'a', 2)], settings=settings, horizon=45.0,
                                     delays=False, early_user=False, time_dev=False))
    # 9c. a handler with an object-dependent filter that stops matching in mid-cycle (after it has finished / between its retries) and matches
    # again before the cycle closes: its record is still the record of THIS cycle
    for lc in ('asap', 'one_by_one', 'all_at_once'):
        for s_f, s_o in ((['ok'], ['temp', 'ok']), (['temp5', 'ok'], ['temp', 'temp', 'ok']), (['ok'], ['temp', 'temp', 'ok'])):
            handlers = [dict(id='cf', on='create', script=s_f, when='status.foreign!=1', backoff=3), dict(id='c1', on='create', script=s_o, backoff=3)]
            for flips in ([(2.0, 'status', 'a', 1), (3.0, 'status', 'a', 2)], [(2.0, 'status', 'a', 1), (5.0, 'status', 'a', 2)], [(1.5, 'status', 'a', 1), (2.5, 'status', 'a', 2), (4.5, 'status', 'a', 1), (5.5, 'status', 'a', 3)]):
                plain.append(C02Scenario(handlers=handlers, lifecycle=lc, user=base_user + flips, settings=settings, horizon=40.0,
                                         delays=False, early_user=False, time_dev=False))
            lab = [dict(id='cf', on='create', script=s_f, labels={'on': 'yes'}, backoff=3), dict(id='c1', on='create', script=s_o, backoff=3)]
            plain.append(C02Scenario(handlers=lab, lifecycle=lc, user=[(1.0, 'createl', 'a', 'on', 'yes'), (2.0, 'label', 'a', 'on', 'no'), (3.0, 'label', 'a', 'on', 'yes')],
                                     settings=settings, horizon=40.0, delays=False, early_user=False, time_dev=False))
    # 10. a parent that runs its sub-handlers explicitly (kopf.execute()) and then fails / succeeds on its own, followed by a second cycle
    for sp, sa in itertools.product((['perm'], ['temp', 'perm'], ['arb', 'ok'], ['ok']), (['ok'], ['temp', 'ok'])):
        for lc in ('asap', 'all_at_once'):
            handlers = [dict(id='p', on='create', script=sp, backoff=3), dict(id='p2', on='update', script=['ok'], backoff=3)]
            subs = {'p': [dict(id='s1', script=sa), dict(id='s2', script=['ok'])], 'p2': [dict(id='s1', script=['ok'])]}
            plain.append(C02Scenario(handlers=handlers, subs=subs, execute_first=['p'], lifecycle=lc, user=base_user + [(30.0, 'spec', 'a', 2)], settings=settings,
                                     horizon=60.0, delays=False, early_user=False, time_dev=False))
    # 6b. ... and the resume handler has sub-handlers: one recorded as done, its sibling between retries, when the change supersedes the cause
    for lc in ('asap', 'all_at_once'):
        for sb in (['temp', 'ok'], ['temp', 'temp', 'ok']):
            handlers = [dict(id='c1', on='create', script=['ok']), dict(id='r1', on='resume', script=['ok']), dict(id='u1', on='update', script=['ok'])]
            subs = {'r1': [dict(id='s1', script=['ok']), dict(id='s2', script=sb)]}
            for edit in (('label', 'a', 'l', 'v'), ('spec', 'a', 2)):
                for t_edit in (11.0, 12.0):
                    user = base_user + [(10.0, 'restart'), (t_edit, *edit)]
                    plain.append(C02Scenario(handlers=handlers, subs=subs, lifecycle=lc, user=user, settings=settings, horizon=45.0,
                                             delays=False, early_user=False, time_dev=False))
            timing.append(C02Scenario(handlers=handlers, subs=subs, lifecycle=lc, user=base_user + [(10.0, 'restart'), (11.0, 'spec', 'a', 2)],
                                      settings=settings, horizon=45.0))
    return plain, timing, crash


def run(tier: str, seed: int) -> CheckResult:
    plain, timing, crash = scenarios(tier)
    if tier == 'quick':
        groups = [('scripts-x-lifecycles', plain, 1, 30.0), ('foreign-events+delays', timing, 2, 40.0),
                  ('crash-points', crash, 2, 30.0)]
    else:
        groups = [('scripts-x-lifecycles', plain, 1, 300.0), ('foreign-events+delays', timing, 2, 500.0),
                  ('crash-points', crash, 2, 400.0)]
    stats, viols, info, nscen = run_groups(groups, seed=seed)
    return CheckResult(
        prop='C02', tier=tier, seed=seed, stats=stats, violations=viols, scenarios=nscen,
        bound_requested=max(g[2] for g in groups), extra={'groups': info},
        rule="scenarios = outcome scripts (len<=3 over ok/temporary/permanent/arbitrary) for 2 create + 2 update + 1 delete "
             "handlers, and for a parent with 2 sub-handlers, x lifecycles {asap, one_by_one, all_at_once}; foreign "
             "status/label/spec edits; annotations and status progress storage; crash points = kill before / after the "
             "server applied each in-flight PATCH followed by a restart; deviations = early/late placement of the "
             "foreign event, delayed responses, timers firing before echoes, kills; non-trivial = observable outcome "
             "differs from the scenario's default schedule",
        assumptions=["handler outcome finality is read from the scripts (no retries/timeout limits in these scenarios; those are C11)",
                     "progress records are decoded by an independent reader of the documented annotation/status formats",
                     "the World's PATCH/watch semantics (self-tested)"])


def scenario_from(name: str, params: dict[str, Any]) -> Scenario:
    return C02Scenario(**params)


def replay(rec: dict[str, Any]) -> int:
    sc = scenario_from(rec['scenario'], rec['params'])
    env = execute(sc, rec['labels'])
    viols = getattr(env, 'violations', [])
    for t, k, p in env.obs:
        if k in ('call', 'write', 'user', 'kill', 'start', 'stop', 'srv', 'deliver'):
            brief = {kk: vv for kk, vv in p.items() if kk in ('id', 'retry', 'reason', 'rv', 'outcome', 'actor', 'verb', 'name', 'op', 'method', 'status', 'fault', 'item', 'idx')}
            print(f'{t:8.3f} {k:8s} {brief}')
    for v in viols:
        print('VIOLATION', v.kind, v.message)
    return 1 if viols else 0
