"""
C08 Accumulated patches are delivered completely, atomically and exactly once.

Subject: patching.patch_obj (split body/status merge-patches, JSON-patch = [test resourceVersion] + ops
computed on the freshest body, 422 -> remaining patch, 404 -> silence), patches.Patch.as_json_patch,
and the carry-over loop (a remaining patch re-evaluated against a fresh body until nothing remains);
plus the framework's own carry-over (processing: memory.remaining_patch) in the closed loop, where label
toggles and a deletion placed by the explorer make the finalizer edits conflict (422) and travel on.
Search: patch content {none, body fields, status fields, both} x transformations {none, add kopf's
finalizer, remove it, a NON-idempotent list append, one touching /status} x status subresource {no, yes}
x foreign writes {spec edit, foreign finalizer, status edit, delete, delete+recreate} whose position
relative to the (up to four) requests the explorer chooses, x injected 404/422 answers at each request.
Oracle, on the server's own log: merge fields arrive complete, once, on the right endpoint with the right
content type; every successful JSON-patch equals the transformations applied to the state IMMEDIATELY
before it (atomicity); after a 422 nothing of the transformations was written and they are all carried
forward; over all rounds each transformation took effect exactly once; 404 ends it silently; no write
lands on an object with another uid than the one the patch was computed for.
"""
from __future__ import annotations

import copy
import itertools
import json
import logging
from typing import Any, Iterable

from kopf._cogs.clients import auth, patching
from kopf._cogs.structs import bodies, patches

from kv.explorer import Env, Scenario, UserAction, Violation, execute
from kv.harness.op import make_settings, make_vault, resource_of
from kv.ref import rfc7386
from kv.runner import CheckResult, run_groups
from kv.world import KEX, KEX_SUB, Request, normalise

FIN = 'kopf.zalando.org/KopfFinalizerMarker'


def fn_add_fin(body: dict) -> None:
    if FIN not in body.get('metadata', {}).get('finalizers', []):
        body.setdefault('metadata', {}).setdefault('finalizers', []).append(FIN)


def fn_remove_fin(body: dict) -> None:
    fins = body.get('metadata', {}).get('finalizers', [])
    while FIN in fins:
        fins.remove(FIN)
    if 'finalizers' in body.get('metadata', {}) and not body['metadata']['finalizers']:
        del body['metadata']['finalizers']


def fn_append(body: dict) -> None:
    body.setdefault('spec', {}).setdefault('items', []).append('x')     # deliberately not idempotent


def fn_status(body: dict) -> None:
    body.setdefault('status', {})['counter'] = body.get('status', {}).get('counter', 0) + 1


FNS = {'add_fin': fn_add_fin, 'remove_fin': fn_remove_fin, 'append': fn_append, 'status_fn': fn_status}
FIELDS = {
    'none': {},
    'body': {'metadata': {'annotations': {'kopf.zalando.org/h1': '{"retries":1}'}}, 'spec': {'fromhandler': 'v'}},
    'status': {'status': {'h1': {'result': 'ok'}}},
    'both': {'metadata': {'annotations': {'kopf.zalando.org/last-handled-configuration': '{}\n'}}, 'status': {'h1': 'done'}},
}


class C08Scenario(Scenario):
    name = 'c08'
    prop = 'C08'
    horizon = 300.0

    def __init__(self, **params: Any) -> None:
        super().__init__(**params)
        self.kind = KEX_SUB if params['sub'] else KEX
        self.kinds = [self.kind]

    def delays(self, env: Env, req: Request) -> bool:
        return False

    def allow_time_deviation(self, env: Env) -> bool:
        return False

    def faults(self, env: Env, req: Request) -> Iterable[str]:
        if self.params.get('inject') and req.method == 'patch' and req.state == 'new' and not any(r.fault for r in env.world.requests):
            # a 422 is what a failed version test of a JSON-patch looks like; a merge-patch knows no such conflict
            return ['404', '422'] if req.ctype == 'application/json-patch+json' else ['404']
        return ()

    def setup(self, env: Env) -> None:
        K = self.kind
        init: dict[str, Any] = {'spec': {'x': 1, 'items': ['a']}, 'status': {'counter': 0}}
        if self.params.get('nostatus'):
            del init['status']       # a fresh object: the first write into .status creates the stanza (op path exactly '/status')
        obj = env.world.create(K, 'ns', 'a', init)
        if 'remove_fin' in self.params['fns']:
            env.world.edit(K, 'ns', 'a', lambda o: o['metadata'].setdefault('finalizers', []).extend(['first/fin', FIN, 'last/fin']))
        env.memo['uid0'] = obj['metadata']['uid']
        settings = make_settings()
        resource = resource_of(K)
        fields = FIELDS[self.params['fields']]
        fns = [FNS[n] for n in self.params['fns']]

        async def main() -> None:
            auth.vault_var.set(make_vault(env.world))
            snapshot = copy.deepcopy(env.world.get(K, 'ns', 'a'))
            patch = patches.Patch(copy.deepcopy(fields), body=bodies.Body(snapshot), fns=list(fns))
            for rnd in range(5):
                if not patch:
                    break
                try:
                    result, remaining = await patching.patch_obj(settings=settings, resource=resource, namespace='ns', name='a',
                                                                 patch=patch, logger=logging.getLogger('kv'))
                except Exception as e:
                    env.log('patch_obj', round=rnd, error=repr(e)[:200], etype=type(e).__name__)
                    return
                env.log('patch_obj', round=rnd, gone=result is None, remaining=None if remaining is None else len(remaining.fns),
                        remaining_fields=None if remaining is None else dict(remaining))
                if remaining is None:
                    break
                fresh = copy.deepcopy(env.world.get(K, 'ns', 'a'))
                if fresh is None or fresh['metadata']['uid'] != snapshot['metadata']['uid']:
                    env.log('vanished', round=rnd)   # another object (even of the same name) has its own memory in the operator
                    break
                patch = patches.Patch(remaining, body=bodies.Body(fresh))
            else:
                env.log('patch_obj', round=5, error='did not settle in 5 rounds', etype='NoSettle')
            env.log('finished')
        self.task = env.spawn('A', main(), name='worker for the object')

    def done(self, env: Env) -> bool:
        return self.task.done() and env.user_idx >= len(env.user)

    def script(self, env: Env) -> list[UserAction]:
        K = self.kind
        out = []

        def act(kind: str) -> Any:
            def fn(e: Env) -> None:
                w = e.world
                if kind == 'spec':
                    w.merge(K, 'ns', 'a', {'spec': {'foreign': e.count('f')}}, actor='foreign')
                elif kind == 'fin':
                    w.edit(K, 'ns', 'a', lambda o: o['metadata'].setdefault('finalizers', []).insert(0, f"foreign/{e.count('ff')}"), actor='foreign')
                elif kind == 'status':
                    w.merge(K, 'ns', 'a', {'status': {'foreign': e.count('fs')}}, actor='foreign')
                elif kind == 'delete':
                    o = w.get(K, 'ns', 'a')
                    if o is not None:
                        w.edit(K, 'ns', 'a', lambda o: o['metadata'].pop('finalizers', None), actor='foreign')
                        w.delete(K, 'ns', 'a', actor='foreign')
                elif kind == 'recreate':
                    o = w.get(K, 'ns', 'a')
                    if o is not None:
                        w.edit(K, 'ns', 'a', lambda o: o['metadata'].pop('finalizers', None), actor='foreign')
                        w.delete(K, 'ns', 'a', actor='foreign')
                    w.create(K, 'ns', 'a', {'spec': {'x': 'new-object', 'items': []}}, actor='foreign')
            return fn
        for i, kind in enumerate(self.params['foreign']):
            out.append(UserAction(100.0 + i, kind, act(kind)))
        return out

    # ---- the oracle ----
    def check(self, env: Env) -> list[Violation]:
        out: list[Violation] = []
        if env.end_reason in ('stall', 'livelock', 'step-budget', 'deadlock'):
            return [self.viol(env, 'no-progress', f'execution ended with {env.end_reason}', end=env.end_reason)]
        K = self.kind
        sub = self.params['sub']
        fields = FIELDS[self.params['fields']]
        fns = [FNS[n] for n in self.params['fns']]
        uid0 = env.memo['uid0']
        body_fields = {k: v for k, v in fields.items() if not (sub and k == 'status')}
        status_fields = {'status': fields['status']} if (sub and 'status' in fields) else {}
        reqs = [r for r in env.world.requests if r.method == 'patch']
        injected = any(r.fault for r in reqs)
        for t, k, p in env.obs:
            if k == 'patch_obj' and p.get('error'):
                out.append(self.viol(env, 'error-escapes', f"patch_obj raised {p['error']}", exc=p.get('etype')))
        merges_main = [r for r in reqs if r.ctype == 'application/merge-patch+json' and not r.path.endswith('/status') and r.state != 'dropped']
        merges_status = [r for r in reqs if r.ctype == 'application/merge-patch+json' and r.path.endswith('/status') and r.state != 'dropped']
        jsons = [r for r in reqs if r.ctype == 'application/json-patch+json' and r.state != 'dropped']
        # -- completeness, endpoints, once --
        if body_fields:
            if len(merges_main) != 1 and not injected:
                out.append(self.viol(env, 'merge-count', f"{len(merges_main)} merge-patches of the body were sent, expected exactly 1", part='body'))
            for r in merges_main:
                if r.payload != body_fields:
                    out.append(self.viol(env, 'merge-incomplete', f"body merge-patch payload {r.payload} != accumulated {body_fields}", part='body'))
        elif merges_main:
            out.append(self.viol(env, 'merge-count', f"a body merge-patch {merges_main[0].payload} was sent although no body fields were accumulated", part='body'))
        if status_fields:
            if len(merges_status) != 1 and not injected and not any(r.status == 404 for r in merges_main):
                out.append(self.viol(env, 'merge-count', f"{len(merges_status)} status merge-patches sent, expected exactly 1", part='status'))
            for r in merges_status:
                if r.payload != status_fields:
                    out.append(self.viol(env, 'merge-incomplete', f"status merge-patch payload {r.payload} != {status_fields}", part='status'))
        elif merges_status:
            out.append(self.viol(env, 'status-endpoint-misuse', f"a /status merge-patch was sent although the resource has {'a' if sub else 'no'} status subresource "
                                                                f"and the accumulated status is {fields.get('status')}", part='status'))
        if not sub and any(r.path.endswith('/status') for r in reqs):
            out.append(self.viol(env, 'status-endpoint-misuse', "a request went to /status of a resource without a status subresource", part='status'))
        if sub and 'status' in fields and any('status' in (r.payload or {}) for r in merges_main if isinstance(r.payload, dict)):
            out.append(self.viol(env, 'status-endpoint-misuse', "status fields were sent to the main endpoint of a resource with a status subresource", part='status'))
        # -- uid binding --
        misdirected_merge = False
        for r in reqs:
            if r.status == 200 and r.state == 'done' or r.state == 'applied':
                pre = r.pre
                if pre is not None and pre['metadata']['uid'] != uid0 and r.post is not None and r.post != pre:
                    is_merge = 'merge' in r.ctype
                    # a JSON-patch takes its version test from the body the preceding merge-patch returned: once that
                    # one hit the wrong object, the JSON-patch follows it (same root cause, reported as such)
                    how = 'name-reuse' if is_merge or not misdirected_merge else 'after-misdirected-merge'
                    misdirected_merge = misdirected_merge or is_merge
                    out.append(self.viol(env, 'wrong-object', f"{r.ctype} to {r.path} changed an object with uid {pre['metadata']['uid']}; the patch was computed for uid {uid0}",
                                         how=how, ctype='merge' if is_merge else 'json'))
        # -- atomicity of the transformations --
        applied = 0
        for r in jsons:
            if r.status == 200 and r.pre is not None and r.post is not None and not r.fault:
                want = copy.deepcopy(r.pre)
                for fn in fns:
                    fn(want)
                want = normalise(want)
                got = copy.deepcopy(r.post)
                for d in (want, got):
                    d['metadata'].pop('resourceVersion', None)
                to_status = r.path.endswith('/status')
                if sub:
                    # a request to the main endpoint cannot change status and vice versa
                    if to_status:
                        want = dict(copy.deepcopy(r.pre), status=want.get('status'))
                        want['metadata'].pop('resourceVersion', None)
                        if want.get('status') is None:
                            want.pop('status', None)
                    else:
                        if 'status' in r.pre:
                            want['status'] = copy.deepcopy(r.pre['status'])
                        else:
                            want.pop('status', None)
                if got != want:
                    out.append(self.viol(env, 'stale-transformation', f"JSON-patch {r.payload} turned {_brief(r.pre)} into {_brief(got)}; the transformations "
                                                                      f"{self.params['fns']} on the state immediately before it give {_brief(want)}", part='status' if to_status else 'body'))
                if r.post != r.pre:
                    applied += 1
            if r.status == 422 and r.post is not None and r.pre is not None and r.post != r.pre:
                out.append(self.viol(env, 'write-despite-conflict', f"a JSON-patch answered 422 changed the object", part='json'))
            ops = r.payload if isinstance(r.payload, list) else []
            if not ops or ops[0].get('op') != 'test' or ops[0].get('path') != '/metadata/resourceVersion':
                out.append(self.viol(env, 'no-version-test', f"JSON-patch {ops} does not start with a test of the resource version", part='json'))
        # -- carried forward, exactly once overall --
        final = env.world.get(K, 'ns', 'a')
        finished = any(k == 'finished' for _, k, _ in env.obs)
        last = [p for _, k, p in env.obs if k == 'patch_obj']
        settled = finished and last and last[-1].get('remaining') is None and not last[-1].get('gone') and not last[-1].get('error')
        vanished = any(k == 'vanished' for _, k, _ in env.obs) or (last and last[-1].get('gone')) or final is None or final['metadata']['uid'] != uid0
        if fns and settled and not vanished and not injected:
            if 'append' in self.params['fns']:
                n = final['spec'].get('items', []).count('x')
                if n != 1:
                    out.append(self.viol(env, 'not-exactly-once', f"the non-idempotent transformation took effect {n} times: items={final['spec'].get('items')}", fn='append'))
            if 'status_fn' in self.params['fns']:
                if final.get('status', {}).get('counter') != 1:
                    out.append(self.viol(env, 'not-exactly-once', f"the status transformation took effect {final.get('status', {}).get('counter')} times", fn='status_fn'))
            if 'add_fin' in self.params['fns'] and final['metadata'].get('finalizers', []).count(FIN) != 1:
                out.append(self.viol(env, 'not-exactly-once', f"finalizers after adding kopf's: {final['metadata'].get('finalizers')}", fn='add_fin'))
            if 'remove_fin' in self.params['fns']:
                fl = final['metadata'].get('finalizers', [])
                if FIN in fl or [f for f in fl if not f.startswith('foreign/')] != ['first/fin', 'last/fin']:
                    out.append(self.viol(env, 'not-exactly-once', f"finalizers after removing kopf's: {fl}", fn='remove_fin'))
        for p in last:
            if p.get('remaining') is not None:
                if p['remaining'] != len(fns):
                    out.append(self.viol(env, 'remaining-incomplete', f"after a conflict {p['remaining']} of {len(fns)} transformations are carried forward", part='carry'))
                if p.get('remaining_fields'):
                    out.append(self.viol(env, 'remaining-has-fields', f"the remaining patch re-sends merge fields {p['remaining_fields']}", part='carry'))
        return out


def _brief(o: dict | None) -> str:
    if o is None:
        return 'None'
    return json.dumps({'fin': o['metadata'].get('finalizers'), 'spec': o.get('spec'), 'status': o.get('status')}, sort_keys=True)


def scenarios(tier: str) -> tuple[list[C08Scenario], list[C08Scenario]]:
    base: list[C08Scenario] = []
    deep: list[C08Scenario] = []
    fnsets = [[], ['add_fin'], ['remove_fin'], ['append'], ['status_fn'], ['add_fin', 'append'], ['remove_fin', 'status_fn']]
    foreigns = [[], ['spec'], ['fin'], ['status'], ['delete'], ['recreate'], ['spec', 'fin'], ['fin', 'fin'], ['status', 'spec'], ['fin', 'recreate']]
    for fields, fns, sub in itertools.product(FIELDS, fnsets, (False, True)):
        if fields == 'none' and not fns:
            continue
        for foreign in foreigns:
            sc = C08Scenario(fields=fields, fns=fns, sub=sub, foreign=foreign, inject=False)
            (deep if len(foreign) == 2 else base).append(sc)
        base.append(C08Scenario(fields=fields, fns=fns, sub=sub, foreign=[], inject=True))
        base.append(C08Scenario(fields=fields, fns=fns, sub=sub, foreign=['fin'], inject=True))
        if 'status_fn' in fns:
            for foreign in ([], ['spec'], ['fin']):
                base.append(C08Scenario(fields=fields, fns=fns, sub=sub, foreign=foreign, inject=False, nostatus=True))
            base.append(C08Scenario(fields=fields, fns=fns, sub=sub, foreign=[], inject=True, nostatus=True))
    return base, deep


# ---- the framework's own carry-over (processing: memory.remaining_patch), in the closed loop ---------------

def _loop_scenarios() -> list[Scenario]:
    from kv.checks.c06 import C06Scenario

    class CarryOverScenario(C06Scenario):
        """C06's closed loop, judged for C08's clause only: after a 422 the finalizer edit is carried forward and
        RE-EVALUATED against the fresh state - so no finalizer write that follows a conflict may contradict the
        state it lands on (a decision replayed as taken for the stale state does)."""
        name = 'c08-loop'
        prop = 'C08'

        def check(self, env: Env) -> list[Violation]:
            conflicts = [r for r in env.world.requests if r.status == 422]
            out = []
            fin = self.params.get('user_fin')
            if fin:
                # a user transformation (patch.fns): whatever the conflicts, it takes effect exactly once
                adds = [w['t'] for w in env.world.writes if w['actor'].startswith('op:') and w['pre'] is not None and w['post'] is not None
                        and fin not in (w['pre']['metadata'].get('finalizers') or []) and fin in (w['post']['metadata'].get('finalizers') or [])]
                asked = sum(1 for _, k, p in env.obs if k == 'call' and p['id'] == 'c1' and p['outcome'].startswith('ok'))
                if len(adds) > asked:
                    out.append(self.viol(env, 'transformation-duplicated', f"the handler asked {asked} time(s) for finalizer {fin!r} to be added; the operator "
                                                                           f"added it at {adds} ({len(conflicts)} version conflict(s) on the way)", clause='exactly-once'))
                carved = self.carveouts(env)
                if self.params.get('variant') == 'user-fn-failing-cycle':
                    # an up-front rejected request (500) changes nothing on the server: the failed cycle only postpones the delivery to the
                    # next cycle - which needs an event that comes after the failure
                    faulty = [r for r in env.world.requests if r.fault]
                    killed = bool(env.counters.get('kills')) or any(k == 'kill' for _, k, _ in env.obs)
                    last = max([r.t_responded or 0.0 for r in faulty], default=0.0)
                    later_event = any(w['actor'] == 'user' and w['name'] == 'a' and w['t'] > last for w in env.world.writes)
                    carved = killed or any(r.fault != '500' for r in faulty) or (bool(faulty) and not later_event)
                    # the clause is about transformations carried after a version conflict: a failure of the FIRST delivery attempt (no
                    # conflict before it) is outside of it (kopf drops the transformation there; noted in DESIGN.md, not judged)
                    first_conflict = min([r.t_responded or 0.0 for r in conflicts], default=None)
                    if any(first_conflict is None or (r.t_responded or 0.0) < first_conflict or r.rid < min(c.rid for c in conflicts) for r in faulty):
                        carved = True
                if asked and not adds and not env.owes() and env.end_reason == 'horizon' and not carved:
                    out.append(self.viol(env, 'transformation-lost', f"the handler asked for finalizer {fin!r}; it was never added", clause='exactly-once'))
            if not conflicts:
                return out
            for v in super().check(env):
                if v.kind in ('released-early', 'unblocked-while-required', 'blocked-needlessly', 'blocked-while-deleting', 'foreign-finalizers-changed'):
                    out.append(self.viol(env, 'carried-transformation-not-reevaluated',
                                         f"after {len(conflicts)} version conflict(s): {v.message}", clause='re-evaluated', what=v.kind))
                if v.kind in ('not-released', 'not-blocked', 'not-unblocked'):
                    # "... so its effect is neither lost nor duplicated": the finalizer edit that met the conflict never happened afterwards
                    out.append(self.viol(env, 'carried-transformation-lost',
                                         f"after {len(conflicts)} version conflict(s): {v.message}", clause='neither-lost', what=v.kind))
            return out
    globals()['CarryOverScenario'] = CarryOverScenario
    st = {'persistence__consistency_timeout': 5.0}
    out: list[Scenario] = []
    for d1 in (['ok'], ['temp', 'ok']):
        handlers = [dict(id='c1', on='create', script=['ok']), dict(id='d1', on='delete', script=d1, labels={'on': 'yes'})]
        out.append(CarryOverScenario(handlers=handlers, settings=st, horizon=50.0, variant='toggle',
                                     user=[(1.0, 'create', 'a'), (2.0, 'label', 'a', 'on', 'yes'), (5.0, 'label', 'a', 'on', 'no'),
                                           (8.0, 'label', 'a', 'on', 'yes'), (10.0, 'delete', 'a'), (11.0, 'label', 'a', 'on', 'no')]))
        out.append(CarryOverScenario(handlers=handlers, settings=st, horizon=50.0, variant='toggle-live',
                                     user=[(1.0, 'create', 'a'), (2.0, 'label', 'a', 'on', 'yes'), (5.0, 'label', 'a', 'on', 'no'),
                                           (8.0, 'label', 'a', 'on', 'yes'), (12.0, 'status', 'a', 1)]))
    # the plain life of an object with a mandatory delete handler; the explorer lands foreign writes before the finalizer JSON-patches
    for d1 in (['ok'], ['temp', 'temp', 'ok']):
        handlers = [dict(id='c1', on='create', script=['ok']), dict(id='d1', on='delete', script=d1)]
        out.append(CarryOverScenario(handlers=handlers, settings=st, horizon=50.0, variant='plain',
                                     user=[(1.0, 'create', 'a'), (10.0, 'delete', 'a'), (11.0, 'status', 'a', 1)]))
        out.append(CarryOverScenario(handlers=handlers, settings=st, horizon=50.0, variant='foreign',
                                     user=[(1.0, 'create', 'a'), (3.0, 'addfin0', 'a', 'other/fin'), (10.0, 'delete', 'a'), (11.0, 'status', 'a', 1),
                                           (14.0, 'delfin', 'a', 'other/fin')]))
    # a user transformation that meets a version conflict, is delivered in the next cycle, and whose effect somebody undoes later
    for lc in ('asap',):
        handlers = [dict(id='c1', on='create', script=['ok+finuser/fin']), dict(id='u1', on='update', script=['ok'])]
        out.append(CarryOverScenario(handlers=handlers, settings=st, horizon=40.0, variant='user-fn', user_fin='user/fin', lifecycle=lc,
                                     user=[(1.0, 'create', 'a'), (5.0, 'status', 'a', 1), (10.0, 'delfin', 'a', 'user/fin'), (14.0, 'status', 'a', 2),
                                           (16.0, 'spec', 'a', 2)]))
        # ... and the cycle that is to deliver it fails as a whole (the server answers 500 to one of its requests): it stays carried
        out.append(CarryOverScenario(handlers=handlers, settings=st, horizon=40.0, variant='user-fn-failing-cycle', user_fin='user/fin', lifecycle=lc,
                                     faults=['500'], max_faults=1,
                                     user=[(1.0, 'create', 'a'), (5.0, 'status', 'a', 1), (14.0, 'status', 'a', 2)]))
    return out


# ---- "status through the status subresource exactly when the resource has one", with the resource as DISCOVERED by the operator ----

import dataclasses as _dc
from kv.world import CRDS, EVENTS, NAMESPACES, Kind

KEXSETS = Kind('kopf.dev', 'v1', 'kopfexamplesets', 'KopfExampleSet', 'kopfexampleset', True)      # its plural extends 'kopfexamples'
KEXSETS_SUB = _dc.replace(KEXSETS, subresources=frozenset({'status'}))


class DiscoveredScenario(Scenario):
    """The whole operator against a cluster with two kinds of one group whose plural names stand in a prefix relation; exactly one of
    them has a status subresource. A creation handler returns a result (delivered into the status) - it has to arrive, and through the
    endpoint the kind really has."""
    name = 'c08-discovered'
    prop = 'C08'
    horizon = 30.0

    def __init__(self, **params: Any) -> None:
        super().__init__(**params)
        self.served = {'kex': KEX, 'kex+status': KEX_SUB}[params['served']]
        self.sibling = {'sets': KEXSETS, 'sets+status': KEXSETS_SUB}[params['sibling']]
        self.kinds = [NAMESPACES, EVENTS, CRDS, self.served, self.sibling]

    def delays(self, env: Env, req: Request) -> bool:
        return False

    def allow_time_deviation(self, env: Env) -> bool:
        return False

    def allow_early_user(self, env: Env, action: UserAction) -> bool:
        return False

    def setup(self, env: Env) -> None:
        import kopf
        from kv.harness.op import Operator, add_login
        reg = kopf.OperatorRegistry()
        add_login(reg, env.world)

        async def c1(**kw: Any) -> Any:
            env.log('call', id='c1', name=kw['name'], kind=kw['body'].get('kind'))
            return {'k': 'v'}
        kopf.on.create('kopfexamples', id='c1', registry=reg)(c1)
        if self.params.get('handle_sibling'):
            kopf.on.create('kopfexamplesets', id='c1', registry=reg)(c1)
        self.op = Operator(env, 'A', reg, make_settings(persistence__consistency_timeout=5.0))
        self.op.start()

    def script(self, env: Env) -> list[UserAction]:
        def mk(kind: Kind, name: str) -> Any:
            return lambda e: e.world.create(kind, 'ns', name, {'spec': {'x': 1}})
        out = [UserAction(3.0, 'create-a', mk(self.served, 'a'))]
        if self.params.get('handle_sibling'):
            out.append(UserAction(4.0, 'create-s', mk(self.sibling, 's')))
        return out

    def check(self, env: Env) -> list[Violation]:
        if env.end_reason in ('stall', 'livelock', 'step-budget', 'deadlock'):
            return [self.viol(env, 'no-progress', f'execution ended with {env.end_reason}', end=env.end_reason)]
        out: list[Violation] = []
        if env.owes():
            return out
        pairs = [(self.served, 'a')] + ([(self.sibling, 's')] if self.params.get('handle_sibling') else [])
        for kind, name in pairs:
            has_sub = 'status' in kind.subresources
            reqs = [r for r in env.world.requests if r.method == 'patch' and f'/{kind.plural}/{name}' in r.path]
            to_sub = [r for r in reqs if r.path.endswith('/status')]
            if to_sub and not has_sub:
                out.append(self.viol(env, 'wrong-endpoint', f"{kind.plural} has no status subresource, yet {len(to_sub)} PATCH request(s) went to {to_sub[0].path} "
                                                            f"(answered {to_sub[0].status})", part='status', served=self.params['served'], sibling=self.params['sibling']))
            obj = env.world.get(kind, 'ns', name)
            got = ((obj or {}).get('status') or {}).get('c1')
            called = any(k == 'call' and p.get('name') == name for _, k, p in env.obs)
            if called and got != {'k': 'v'}:
                out.append(self.viol(env, 'status-lost', f"the creation handler of {kind.plural}/{name} returned a result; the object's status holds {got!r} for it "
                                                         f"(status subresource: {has_sub}; PATCH requests: {[(r.path.rsplit('/', 2)[-1], r.status) for r in reqs]})",
                                     part='status', served=self.params['served'], sibling=self.params['sibling']))
            if not called:
                out.append(self.viol(env, 'status-lost', f"the creation handler of {kind.plural}/{name} was never invoked", part='handler'))
        return out


def discovered_scenarios() -> list[Scenario]:
    return [DiscoveredScenario(served=a, sibling=b, handle_sibling=h) for a in ('kex', 'kex+status') for b in ('sets', 'sets+status') for h in (False, True)]


# ---- what daemons and timers accumulate: sibling handlers spawned by one event, each delivering its own patch -----------------------

def _spawned_scenarios() -> list[Scenario]:
    from kv.harness.change import ChangeScenario

    class SpawnedPatchScenario(ChangeScenario):
        """Timers and daemons of ONE object, spawned by the same event, each leaving through its `patch` kwarg the number of the invocation
        (a field: status.p_<id>) and a counter bump (a transformation: status.c_<id>). On the server the field never goes back to an
        older invocation's value (nothing already delivered is delivered again later), and every bump takes effect exactly once."""
        name = 'c08-spawned'
        prop = 'C08'

        def check(self, env: Env) -> list[Violation]:
            if env.end_reason in ('stall', 'livelock', 'step-budget', 'deadlock'):
                return [self.viol(env, 'no-progress', f'execution ended with {env.end_reason}', end=env.end_reason)]
            out = []
            ids = [h['id'] for h in self.params['handlers'] if any('stamp' in str(x) for x in h.get('script', []))]
            rets: dict[str, list[float]] = {i: [] for i in ids}
            for t, k, p in env.obs:
                if k == 'ret' and p['id'] in rets:
                    rets[p['id']].append(t)
            carved = self.carveouts(env)
            for hid in ids:
                seen_p, seen_c = -1, 0
                for w in env.world.writes:
                    if w['name'] != 'a' or w['post'] is None:
                        continue
                    st = w['post'].get('status') or {}
                    pv, cv = st.get(f'p_{hid}'), int(st.get(f'c_{hid}') or 0)
                    done_by_then = sum(1 for t in rets[hid] if t <= w['t'])
                    if pv is not None and pv < seen_p:
                        out.append(self.viol(env, 'delivered-again', f"t={w['t']}: status.p_{hid} went back from {seen_p} to {pv} (written by {w['actor']}): what an earlier "
                                                                     f"invocation had accumulated was sent once more", clause='exactly-once', what='field'))
                    if cv > done_by_then:
                        out.append(self.viol(env, 'transformation-duplicated', f"t={w['t']}: status.c_{hid}={cv}, but only {done_by_then} invocation(s) of {hid} had ended "
                                                                               f"(written by {w['actor']})", clause='exactly-once', what='bump'))
                    seen_p = max(seen_p, pv if pv is not None else -1)
                    seen_c = cv
                obj = env.world.get(self.kind, 'ns', 'a')
                # (a `time` deviation is a slow CPU: the clock moves while steps are still due - what has 'ended a second ago' may be undelivered)
                if obj is not None and not carved and not env.owes() and env.end_reason == 'horizon' and not any(c.split(':')[0] == 'time' for _, c in env.deviations):
                    ended = [t for t in rets[hid] if t < env.now - 1.0]     # delivered by now for sure
                    mine = [r for r in env.world.requests if r.method == 'patch' and r.origin == f'runner of {hid}' and 'json-patch' in r.ctype]
                    if mine and mine[-1].status == 422 and any(h['id'] == hid and h['on'] == 'timer' for h in self.params['handlers']):
                        continue    # a timer's transformation that has just met a conflict travels with its NEXT run: carried, not lost
                    st = obj.get('status') or {}
                    if int(st.get(f'c_{hid}') or 0) < len(ended) or (ended and (st.get(f'p_{hid}') is None or st.get(f'p_{hid}') < len(ended) - 1)):
                        # the structural pattern of a known defect: a DAEMON whose last delivery met a version conflict and which then ended -
                        # nobody is left to carry its transformation forward (a timer delivers it with its next run)
                        is_daemon = any(h['id'] == hid and h['on'] == 'daemon' for h in self.params['handlers'])
                        own_json = [r for r in env.world.requests if r.method == 'patch' and r.origin == f'runner of {hid}' and 'json-patch' in r.ctype]
                        pattern = 'daemon-ended-after-version-conflict' if is_daemon and own_json and own_json[-1].status == 422 \
                            and int(st.get(f'c_{hid}') or 0) == len(ended) - 1 and st.get(f'p_{hid}') == len(ended) - 1 else 'other'
                        out.append(self.viol(env, 'accumulated-lost', f"{len(ended)} invocation(s) of {hid} had ended a second before the horizon; the object says "
                                                                      f"p={st.get(f'p_{hid}')} c={st.get(f'c_{hid}')}", clause='completely', pattern=pattern))
            return out
    globals()['SpawnedPatchScenario'] = SpawnedPatchScenario
    st = {'persistence__consistency_timeout': 5.0}
    out: list[Scenario] = []
    for interval, dlen in ((2.0, 7.0), (3.0, 4.0), (2.0, 0.5)):
        for order in (0, 1):
            timer = dict(id='t1', on='timer', interval=interval, script=['ok+stamp'])
            daemon = dict(id='d1', on='daemon', body='script', script=[f'ok+stamp~{dlen}'])
            timer2 = dict(id='t2', on='timer', interval=interval + 1.0, script=['ok+stamp~0.5'])
            for sibs in ([timer, daemon], [timer, timer2], [timer, daemon, timer2]):
                sibs = list(reversed(sibs)) if order else sibs
                handlers = [dict(id='c1', on='create', script=['ok']), dict(id='u1', on='update', script=['ok'])] + sibs
                out.append(SpawnedPatchScenario(handlers=handlers, settings=st, horizon=14.5, user=[(1.0, 'create', 'a'), (6.0, 'status', 'a', 1)]))
    return out


# ---- "only ever lands on the object it was computed for": what is accumulated for an object that is GONE goes nowhere -------------------

def _gone_scenarios() -> list[Scenario]:
    from kv.harness.change import ChangeScenario

    class GoneObjectScenario(ChangeScenario):
        """Every handler of the operator notes in the status the uid of the object it was invoked for. The object is deleted and its name taken
        again at once: whatever the operator writes, the note on an object names THAT object."""
        name = 'c08-gone'
        prop = 'C08'

        def check(self, env: Env) -> list[Violation]:
            if env.end_reason in ('stall', 'livelock', 'step-budget', 'deadlock'):
                return [self.viol(env, 'no-progress', f'execution ended with {env.end_reason}', end=env.end_reason)]
            out = []
            # which event of the noted object was being handled when the write was made (by position in the observation log)
            last_type: dict[str, Any] = {}
            types_at_write: dict[int, dict[str, Any]] = {}
            for t, k, p in env.obs:
                if k == 'call' and p['id'] == 'ev':
                    last_type[p['uid']] = p.get('etype')
                elif k == 'write':
                    types_at_write[p['idx']] = dict(last_type)
            for idx, w in enumerate(env.world.writes):
                if not w['actor'].startswith('op:') or w['post'] is None:
                    continue
                by = (w['post'].get('status') or {}).get('by')
                if by is not None and by != w['post']['metadata']['uid'] and (w['pre'] is None or (w['pre'].get('status') or {}).get('by') != by):
                    # the known defect: the name is re-taken between an event of the LIVE object and the PATCH computed from it (merge-patches are
                    # addressed by name). Something else: a patch accumulated while handling the DELETED event of the gone object is sent at all.
                    how = 'gone-object-patched' if types_at_write.get(idx, {}).get(by) == 'DELETED' else 'name-reuse'
                    out.append(self.viol(env, 'wrong-object', f"t={w['t']}: {w['actor']} wrote the note of object {by} onto object {w['post']['metadata']['uid']} "
                                                              f"(same name {w['name']!r})", **({'clause': 'right-object'} if how != 'name-reuse' else {}), how=how, ctype='merge'))
            return out
    globals()['GoneObjectScenario'] = GoneObjectScenario
    st = {'persistence__consistency_timeout': 5.0}
    out: list[Scenario] = []
    regs = {'event-only': [dict(id='ev', on='event', script=['ok+uid'])],
            'event+filtered-out': [dict(id='ev', on='event', script=['ok+uid']), dict(id='c1', on='create', script=['ok'], labels={'managed': 'yes'})],
            'event+daemon': [dict(id='ev', on='event', script=['ok+uid']), dict(id='dm', on='daemon', reaction='obeys')],
            'event+change': [dict(id='ev', on='event', script=['ok+uid']), dict(id='c1', on='create', script=['ok']), dict(id='u1', on='update', script=['ok'])]}
    for name, handlers in regs.items():
        for user in ([(1.0, 'create', 'a'), (6.0, 'recreate', 'a')], [(1.0, 'create', 'a'), (6.0, 'status', 'a', 1), (6.0, 'recreate', 'a')],
                     [(1.0, 'create', 'a'), (6.0, 'recreate', 'a'), (6.0, 'status', 'a', 1)]):
            out.append(GoneObjectScenario(handlers=handlers, user=user, settings=st, horizon=30.0, registry=name, delays=False, time_dev=False))
    return out


def run(tier: str, seed: int) -> CheckResult:
    base, deep = scenarios(tier)
    loop = _loop_scenarios()
    if tier == 'quick':
        groups = [('one-foreign-write+injected-answers', base, 2, 50.0), ('two-foreign-writes', deep, 2, 40.0), ('carry-over-in-the-loop', loop, 2, 40.0), ('discovered-status-subresource', discovered_scenarios(), 0, 20.0), ('spawned-siblings', _spawned_scenarios(), 1, 30.0), ('gone-object', _gone_scenarios(), 1, 20.0)]
    else:
        groups = [('one-foreign-write+injected-answers', base, 3, 600.0), ('two-foreign-writes', deep, 3, 600.0), ('carry-over-in-the-loop', loop, 3, 600.0), ('discovered-status-subresource', discovered_scenarios(), 1, 60.0), ('spawned-siblings', _spawned_scenarios(), 2, 600.0), ('gone-object', _gone_scenarios(), 2, 200.0)]
    stats, viols, info, nscen = run_groups(groups, seed=seed)
    return CheckResult(
        prop='C08', tier=tier, seed=seed, stats=stats, violations=viols, scenarios=nscen,
        bound_requested=max(g[2] for g in groups), extra={'groups': info},
        rule="scenarios = patch fields {none, body, status, both} x transformations {none, add finalizer, remove finalizer (between two foreign ones), "
             "non-idempotent append, status counter, two combined} x status subresource {no, yes} x foreign writes {none, spec, foreign finalizer, "
             "status, delete, delete+recreate, pairs} (+ injected 404/422 answers); deviations = the position of each foreign write among the "
             "requests of patch_obj and of the carry-over rounds, injected answers; non-trivial = outcome differs from the default schedule",
        assumptions=["the World answers a failed JSON-patch `test` with 422 and a missing object with 404, as Kubernetes does",
                     "a carried-over patch is re-evaluated against the then-current object (what the next watch event would bring)"])


def scenario_from(name: str, params: dict[str, Any]) -> Scenario:
    if name == 'c08-discovered':
        return DiscoveredScenario(**params)
    if name == 'c08-gone':
        _gone_scenarios()
        return globals()['GoneObjectScenario'](**params)
    if name == 'c08-spawned':
        _spawned_scenarios()
        return globals()['SpawnedPatchScenario'](**params)
    if name == 'c08-loop':
        _loop_scenarios()
        return globals()['CarryOverScenario'](**params)
    return C08Scenario(**params)


def replay(rec: dict[str, Any]) -> int:
    sc = scenario_from(rec['scenario'], rec['params'])
    env = execute(sc, rec['labels'])
    viols = getattr(env, 'violations', [])
    for t, k, p in env.obs:
        if k in ('user', 'patch_obj', 'vanished', 'finished'):
            print(f'{t:8.3f} {k:10s}', p)
        if k == 'srv':
            print(f'{t:8.3f} {k:10s}', {kk: vv for kk, vv in p.items() if kk in ('verb', 'method', 'path', 'ctype', 'status', 'fault')})
    for v in viols:
        print('VIOLATION', v.kind, v.message)
    return 1 if viols else 0
