"""
C19 Watch coverage and continuity under reconnects, 410s, pauses and cluster changes.

(a) watching.infinite_watch (real list/watch client code) against the in-memory API server: object
    changes (create/modify/delete of two objects) interleaved with stream faults {EOF, connection reset,
    payload error, client timeout, 410 Gone (in-stream and on connect after compaction), 429 on connect,
    unknown ERROR event, BOOKMARK, inactivity} and pause/resume, at scripted instants and at
    explorer-chosen positions.
    Oracle on the API request log and the yielded events: every watch request resumes from the newest
    version already yielded or listed (never newer); every change the server logged for a live watch is
    yielded, in order; at quiescence the consumer's last view of every object equals the server's, and a
    deleted object is known to be gone; an unknown ERROR ends the stream with an exception; while paused
    there are no list/watch requests and the first one after a resume is a list.
(b) the real orchestration.orchestrator over insights revised by histories of {namespace added/removed,
    resource added/removed} to depth d, with revisions placed at every step boundary of the previous
    adjustment (deviations): at quiescence exactly one open watch per served (resource, namespace) pair
    and none for anything else.
"""
from __future__ import annotations

import asyncio
import itertools
import logging
from typing import Any, Iterable

from kopf._cogs.aiokits import aiotoggles
from kopf._cogs.clients import auth, watching
from kopf._cogs.structs import references
from kopf._core.reactor import orchestration

from kv.explorer import Env, Scenario, UserAction, Violation, execute
from kv.harness.op import make_settings, make_vault, resource_of
from kv.runner import CheckResult, run_groups
from kv.world import CRDS, EPOCH, EVENTS, KEX, KEX2, KEX_CLUSTER, NAMESPACES, NS_PEERING, Kind, Request, Stream

INACTIVITY = 20.0


class WatchScenario(Scenario):
    name = 'c19-watch'
    prop = 'C19'
    kinds = [KEX]

    def __init__(self, **params: Any) -> None:
        super().__init__(**params)
        self.horizon = params.get('horizon', 60.0)
        self.grid = params.get('grid')

    def delays(self, env: Env, req: Request) -> bool:
        return False

    def allow_time_deviation(self, env: Env) -> bool:
        return bool(self.params.get('time_dev'))

    def allow_early_user(self, env: Env, action: UserAction) -> bool:
        return bool(self.params.get('early_user'))

    def faults(self, env: Env, req: Request) -> Iterable[str]:
        if self.params.get('dev_faults') and req.state == 'new' and env.counters.get('reqfaults', 0) < 1 and not any(r.fault for r in env.world.requests):
            return ['429:ra1', '500', 'conn'] if req.params.get('watch') == 'true' else ['conn']
        return ()

    def serve_fault(self, env: Env, req: Request) -> str | None:
        if self.params.get('first_list_fault') and req.method == 'get' and not req.params.get('watch') and not env.counters.get('first-list'):
            env.count('first-list')
            return str(self.params['first_list_fault'])      # the very first listing fails once (the client retries after its backoff)
        # scripted: from `throttled_at` on, the next N list/watch requests are answered 429 (N > the client's retries: the request escalates)
        th = self.params.get('throttled')
        if th and req.method == 'get' and env.now >= float(th[0]) and env.counters.get('throttled', 0) < int(th[1]):
            env.count('throttled')
            return '429'
        return None

    def stream_faults(self, env: Env, s: Stream) -> Iterable[str]:
        if self.params.get('dev_faults') and sum(1 for _, k, _ in env.obs if k == 'streamfault') < self.params.get('max_stream_faults', 1):
            return ['eof', 'reset', 'gone410', 'bookmark', 'ctimeout']
        return ()

    def setup(self, env: Env) -> None:
        settings = make_settings(watching__inactivity_timeout=INACTIVITY, watching__reconnect_backoff=0.125,
                                 networking__error_backoffs=(0.5,))
        resource = resource_of(KEX)
        for name in self.params.get('pre', []):
            env.world.create(KEX, 'ns', name, {'spec': {'v': 0}})

        async def main() -> None:
            auth.vault_var.set(make_vault(env.world))
            paused = aiotoggles.ToggleSet(any)
            toggle = await paused.make_toggle(name='user pause')
            env.memo['toggle'] = toggle
            try:
                async for ev in watching.infinite_watch(settings=settings, resource=resource, namespace=None, operator_paused=paused):
                    if isinstance(ev, watching.Bookmark):
                        env.log('yield', type='LISTED')
                    else:
                        env.log('yield', type=ev['type'], name=ev['object'].get('metadata', {}).get('name'),
                                rv=ev['object'].get('metadata', {}).get('resourceVersion'))
            except asyncio.CancelledError:
                raise
            except BaseException as e:
                env.log('stream-ended', error=type(e).__name__, text=str(e)[:100])
            else:
                env.log('stream-ended', error=None)
        env.spawn('A', main(), name='consumer')

    def script(self, env: Env) -> list[UserAction]:
        out = []
        for at, action, *args in self.params['user']:
            out.append(UserAction(float(at), f"{action}{''.join('-' + str(a) for a in args)}", self._act(action, args)))
        return out

    def _act(self, action: str, args: list[Any]) -> Any:
        def fn(env: Env) -> None:
            w = env.world
            if action == 'create':
                w.create(KEX, 'ns', args[0], {'spec': {'v': 0}})
            elif action == 'modify':
                w.merge(KEX, 'ns', args[0], {'spec': {'v': env.count('mod')}})
            elif action == 'delete':
                w.delete(KEX, 'ns', args[0])
            elif action == 'compact':
                w.compact(KEX)
            elif action in ('eof', 'reset', 'payload', 'ctimeout', 'gone410', 'err500', 'bookmark', 'unknown'):
                for s in w.open_streams():
                    env.stream_fault(s, action)
                    env.log('streamfault', stream=s.label, fault=action)
            elif action == 'pause':
                async def turn_on() -> None:
                    await env.memo['toggle'].turn_to(True)
                    env.log('pause-on', nreq=w._rid)        # from here on (by request number, not by time) nothing may be requested
                env.loop.create_task(turn_on(), name='pause')
                env.log('pause')
            elif action == 'resume':
                env.log('resume', nreq=w._rid)
                env.loop.create_task(env.memo['toggle'].turn_to(False), name='resume')
            else:
                raise ValueError(action)
        return fn

    def check(self, env: Env) -> list[Violation]:
        out: list[Violation] = []
        if env.end_reason in ('stall', 'livelock', 'step-budget'):
            return [self.viol(env, 'no-progress', f'execution ended with {env.end_reason}', end=env.end_reason)]
        # -- resumption points: by position in the observation log --
        newest = None          # newest version yielded or listed so far in the current watch generation
        paused = False
        after_resume = False
        yielded: list[tuple[float, str, str, int]] = []
        view: dict[str, tuple[str, int]] = {}
        ended = None
        err_injected = False
        reqs = {r.rid: r for r in env.world.requests}
        for t, k, p in env.obs:
            if k == 'pause':
                paused = True
            elif k == 'resume':
                paused = False
                after_resume = True
            elif k == 'streamfault' and p['fault'] in ('err500',):
                err_injected = True
            elif k == 'stream-ended':
                ended = p
            elif k == 'yield' and p['type'] != 'LISTED':
                rv = int(p['rv']) if p.get('rv') else None
                if p['type'] == 'BOOKMARK':
                    if rv is not None:
                        newest = max(newest or 0, rv)
                    continue
                yielded.append((t, p['type'], p['name'], rv or 0))
                if p['type'] == 'DELETED':
                    view.pop(p['name'], None)
                else:
                    view[p['name']] = (p['type'], rv or 0)
                if p['type'] is None:
                    pass
                elif rv is not None:
                    newest = max(newest or 0, rv)
            elif k == 'srv' and p['verb'] in ('serve', 'respond') and p['method'] == 'get':
                r = reqs.get(p['rid'])
                if r is None:
                    continue
                is_watch = r.params.get('watch') == 'true'
                if paused and r.t_issued >= t - 1e-9 and False:
                    pass
                if is_watch:
                    since = int(r.params.get('resourceVersion') or 0)
                    if newest is not None and since > newest:
                        out.append(self.viol(env, 'resumed-from-too-new', f"t={t}: watch resumed from version {since}, the newest version yielded/listed is {newest}: "
                                                                          f"changes in between are skipped", clause='continuity'))
                    if after_resume:
                        out.append(self.viol(env, 'no-relist-after-resume', f"t={t}: the first request after the resume is a watch, not a fresh listing", clause='pause'))
                    after_resume = False
                elif p.get('status') == 200 and not r.fault:
                    listed_rv = int(((r.outcome[2] or {}).get('metadata') or {}).get('resourceVersion') or 0) if isinstance(r.outcome, tuple) else 0
                    newest = listed_rv
                    after_resume = False
        # requests issued while paused
        pause_windows = []
        start = None
        for t, k, p in env.obs:
            if k == 'pause':
                start = t
            if k == 'resume' and start is not None:
                pause_windows.append((start, t))
                start = None
        if start is not None:
            pause_windows.append((start, float('inf')))
        # ... and by request number: whatever is requested after the pause toggle was on and before the resume was asked for
        on = None
        rid_windows = []
        for t, k, p in env.obs:
            if k == 'pause-on':
                on = (t, p['nreq'])
            if k == 'resume' and on is not None:
                rid_windows.append((on[0], on[1], p.get('nreq', 10 ** 9)))
                on = None
        if on is not None:
            rid_windows.append((on[0], on[1], 10 ** 9))
        for r in env.world.requests:
            for t_on, lo, hi in rid_windows:
                if lo < r.rid <= hi and not (any(a < r.t_issued < b for a, b in pause_windows)):
                    out.append(self.viol(env, 'request-while-paused', f"t={r.t_issued}: {r.method} {r.path}{'?watch' if r.params.get('watch') else ''} was requested after the pause "
                                                                      f"had taken effect (t={t_on}, same instant)", clause='pause', how='same-instant'))
        for r in env.world.requests:
            for a, b in pause_windows:
                if a < r.t_issued < b:
                    # the structural pattern of a known defect: a LIST whose earlier attempt failed before the pause is retried (after its
                    # backoff) inside the pause - the listing is not interruptible by the pause, only the watch request is
                    earlier = [q for q in env.world.requests if q.rid < r.rid and q.path == r.path and q.method == r.method and not q.params.get('watch')
                               and q.fault and q.t_issued <= a]
                    retry = not r.params.get('watch') and bool(earlier) and not any(q for q in env.world.requests if earlier[-1].rid < q.rid < r.rid and q.path == r.path)
                    out.append(self.viol(env, 'request-while-paused', f"t={r.t_issued}: {r.method} {r.path}{'?watch' if r.params.get('watch') else ''} issued while paused ({a}..{b})",
                                         clause='pause', how='retry-of-list-in-backoff' if retry else 'other'))
        # unknown ERROR events must end the stream with an exception
        if err_injected:
            delivered_err = any(k == 'deliver' and isinstance(p.get('item'), tuple) and p['item'][0] == 'ERROR' for _, k, p in env.obs)
            if delivered_err and (ended is None or ended.get('error') is None):
                out.append(self.viol(env, 'error-swallowed', f"an unknown ERROR event was delivered but the stream went on (ended: {ended})", clause='unknown-error'))
        elif ended is not None and ended.get('error') not in (None,):
            if not any(r.fault for r in env.world.requests if r.fault in ('500',)):
                out.append(self.viol(env, 'stream-failed', f"the infinite watch ended with {ended}", clause='continuity', exc=ended.get('error')))
        if ended is not None and ended.get('error') is None:
            # an infinite watch that simply RETURNS (nobody cancelled it, nothing failed): the served pair is silently not watched any more
            out.append(self.viol(env, 'watch-ended-silently', f"the infinite watch returned at t={next((t for t, k, _ in env.obs if k == 'stream-ended'), None)} without an "
                                                              f"error; changes made afterwards reach nobody", clause='continuity'))
        # completeness at quiescence
        if ended is None and not env.owes() and not paused and env.now >= self.horizon - 1:
            K = KEX
            for (ns, name), obj in env.world.objects[K.key].items():
                rv = int(obj['metadata']['resourceVersion'])
                if name not in view or view[name][1] != rv:
                    out.append(self.viol(env, 'change-missed', f"object {name} is at version {rv} on the server, the consumer last saw {view.get(name)}",
                                         clause='every-change', what='modification'))
            for name in view:
                if ('ns', name) not in env.world.objects[K.key]:
                    gap = self._deleted_in_gap(env, name)
                    out.append(self.viol(env, 'change-missed', f"object {name} was deleted on the server but the consumer never learnt it (last saw {view[name]})",
                                         clause='every-change', what='deletion-in-relist-gap' if gap else 'deletion'))
            # in-order, no skipping within live watches: every event the server put on a wire was yielded
            wire = []
            for s in env.world.streams:
                wire += [(rv, typ, name) for rv, typ, name in s.delivered]
            got = {(rv, typ, name) for _, typ, name, rv in yielded if typ is not None}
            for item in wire:
                if item not in got:
                    out.append(self.viol(env, 'event-dropped', f"the server delivered {item} on a watch but it was never yielded", clause='every-change'))
            seq = [rv for _, typ, name, rv in yielded if typ is not None]
        return out

    def _deleted_in_gap(self, env: Env, name: str) -> bool:
        """Was the object deleted while no watch was open (between a stream's end and the next listing)?"""
        tdel = next((w['t'] for w in env.world.writes if w['name'] == name and w['post'] is None), None)
        if tdel is None:
            return False
        delivered = any((typ == 'DELETED' and n == name) for s in env.world.streams for _, typ, n in s.delivered)
        return not delivered


def watch_scenarios(tier: str) -> tuple[list[WatchScenario], list[WatchScenario]]:
    scripted: list[WatchScenario] = []
    searched: list[WatchScenario] = []
    changes = [(2.0, 'create', 'a'), (4.0, 'modify', 'a'), (6.0, 'create', 'b'), (8.0, 'delete', 'a'), (10.0, 'modify', 'b')]
    faults = ['eof', 'reset', 'payload', 'ctimeout', 'gone410', 'bookmark', 'unknown', 'compact+eof', 'pause', 'err500']
    # one or two faults at every position relative to the changes (before, between, at the same instant, after)
    positions = [1.0, 2.0, 3.0, 4.0, 5.0, 7.0, 8.0, 9.0, 11.0]
    for f, at in itertools.product(faults, positions):
        user: list[tuple] = list(changes)
        if f == 'compact+eof':
            user += [(at, 'compact'), (at, 'eof')]
        elif f == 'pause':
            user += [(at, 'pause'), (at + 3.5, 'resume')]
        else:
            user.append((at, f))
        user.sort(key=lambda x: x[0])
        scripted.append(WatchScenario(user=user, pre=['z'], horizon=40.0))
    if tier != 'quick':
        for (f1, a1), (f2, a2) in itertools.combinations(list(itertools.product(['eof', 'reset', 'gone410', 'compact+eof', 'pause'], [3.0, 5.0, 8.0])), 2):
            user = list(changes)
            for f, at in ((f1, a1), (f2, a2)):
                if f == 'compact+eof':
                    user += [(at, 'compact'), (at, 'eof')]
                elif f == 'pause':
                    user += [(at, 'pause'), (at + 1.5, 'resume')]
                else:
                    user.append((at, f))
            user.sort(key=lambda x: x[0])
            scripted.append(WatchScenario(user=user, pre=['z'], horizon=40.0))
    # the API server throttles the operator: after a disconnect, the list / watch requests are answered 429 more often than the client retries
    # them (the request escalates) - the watch keeps trying until it is let in again, and the changes made meanwhile reach processing
    for how in ('eof', 'gone410', 'reset'):
        for n429 in (2, 3, 5):
            user = [(2.0, 'create', 'a'), (4.0, how), (4.5, 'modify', 'a'), (6.0, 'create', 'b'), (12.0, 'modify', 'b'), (13.0, 'delete', 'a')]
            scripted.append(WatchScenario(user=user, pre=['z'], horizon=45.0, throttled=[4.0, n429]))
    # the very first listing fails (connection refused) and is retried after the client's backoff (0.5 s); the operator is paused in between
    for t_pause in (0.25, 0.5, 0.75):
        scripted.append(WatchScenario(user=[(t_pause, 'pause'), (4.0, 'create', 'a'), (6.0, 'resume'), (8.0, 'create', 'b')], pre=['z'], horizon=30.0, first_list_fault='conn'))
    # inactivity: no events for longer than the inactivity timeout, then a change
    scripted.append(WatchScenario(user=[(2.0, 'create', 'a'), (30.0, 'modify', 'a'), (31.0, 'delete', 'a')], pre=[], horizon=70.0))
    # resource versions are opaque: the same scripts with versions that gain a digit in mid-history (99 -> 100, 9 -> 10)
    for sc in list(scripted):
        for rv0 in (97, 7):
            scripted.append(WatchScenario(**dict(sc.params, rv0=rv0)))
    # how the lines of the watch reach the client is the network's business: whole, cut in the middle, in 3-byte reads, with the newline in a
    # read of its own or leading the next read - the same changes and faults reach processing
    for framing in ('newline-alone', 'split-mid', 'newline-leads', 'bytes3'):
        scripted.append(WatchScenario(user=list(changes), pre=['z'], horizon=40.0, framing=framing))
        for f, at in (('eof', 5.0), ('gone410', 7.0), ('bookmark', 3.0), ('reset', 9.0), ('unknown', 5.0)):
            scripted.append(WatchScenario(user=sorted(list(changes) + [(at, f)], key=lambda x: x[0]), pre=['z'], horizon=40.0, framing=framing))
    # explorer-placed faults
    searched.append(WatchScenario(user=changes[:4], pre=['z'], horizon=30.0, dev_faults=True, early_user=True, time_dev=True, grid=2.0))
    searched.append(WatchScenario(user=changes[:4], pre=['z'], horizon=30.0, dev_faults=True, early_user=True, time_dev=True, grid=2.0, rv0=97))
    # a pause that begins while a LIST is in flight: at startup, after a 410 Gone, after a failed list, right after a resume
    searched.append(WatchScenario(user=[(0.0, 'pause'), (3.0, 'resume'), (4.0, 'create', 'a'), (5.0, 'modify', 'a')], pre=['z'], horizon=25.0))
    searched.append(WatchScenario(user=[(2.0, 'create', 'a'), (3.0, 'gone410'), (3.0, 'pause'), (6.0, 'resume'), (7.0, 'modify', 'a')], pre=['z'], horizon=25.0))
    searched.append(WatchScenario(user=[(2.0, 'create', 'a'), (3.0, 'pause'), (5.0, 'resume'), (5.0, 'pause'), (8.0, 'resume'), (9.0, 'modify', 'a')], pre=['z'], horizon=25.0))
    searched.append(WatchScenario(user=[(2.0, 'create', 'a'), (3.0, 'pause'), (4.0, 'modify', 'a'), (5.0, 'delete', 'a'), (6.0, 'resume'), (8.0, 'create', 'b')],
                                  pre=['z'], horizon=30.0, dev_faults=True, early_user=True))
    return scripted, searched


# ---- (b) orchestration ---------------------------------------------------------------------------------

R1, R2 = KEX, KEX2


class OrchestrationScenario(Scenario):
    name = 'c19-orchestration'
    prop = 'C19'
    kinds = [KEX, KEX2, KEX_CLUSTER]
    dev_when_ready = True
    horizon = 40.0

    def __init__(self, **params: Any) -> None:
        super().__init__(**params)
        if params.get('peering'):
            self.kinds = [KEX, KEX2, KEX_CLUSTER, NS_PEERING]

    def delays(self, env: Env, req: Request) -> bool:
        return False

    def allow_time_deviation(self, env: Env) -> bool:
        return False

    def allow_early_user(self, env: Env, action: UserAction) -> bool:
        return False

    def setup(self, env: Env) -> None:
        peering = bool(self.params.get('peering'))
        if peering:
            # namespaced, mandatory peering: the operator is paused as long as ANY served namespace has not shown a peering object
            # without blockers; the pause contributed by a namespace must go away with the namespace
            import datetime
            settings = make_settings(peering__standalone=False, peering__name='default', peering__mandatory=True, peering__priority=0,
                                     peering__lifetime=60, networking__error_backoffs=())
            for ns in self.params.get('peering_in', ['n0', 'n2']):
                env.world.create(NS_PEERING, ns, 'default', {})
            for ns in self.params.get('blocker_in', []):
                env.world.merge(NS_PEERING, ns, 'default', {'status': {'ghost': {
                    'priority': 1000, 'lifetime': 1000, 'lastseen': (EPOCH + datetime.timedelta(seconds=0)).isoformat()}}}, actor='foreign')
        else:
            settings = make_settings()
        insights = references.Insights()
        env.memo['insights'] = insights

        async def processor(**_: Any) -> None:
            return None

        async def main() -> None:
            auth.vault_var.set(make_vault(env.world))
            paused = aiotoggles.ToggleSet(any)
            if peering:
                await insights.backbone.fill(resources=[resource_of(NS_PEERING)])
            try:
                await orchestration.orchestrator(processor=processor, settings=settings, identity='me',  # type: ignore[arg-type]
                                                 insights=insights, operator_paused=paused)
            except asyncio.CancelledError:
                raise
            except BaseException as e:
                env.log('orchestrator-failed', error=repr(e)[:200])
        env.spawn('A', main(), name='orchestrator')

    def script(self, env: Env) -> list[UserAction]:
        out = []
        resources = {'r1': resource_of(R1), 'r2': resource_of(R2), 'r3': resource_of(KEX_CLUSTER)}    # r3 is cluster-scoped

        def mk(action: str, what: str) -> Any:
            def fn(e: Env) -> None:
                ins = e.memo['insights']
                if action == 'break':
                    # an unknown ERROR event on the watch stream of one served pair ('peering:n0', 'r1:n0')
                    rname, ns = what.split(':')
                    plural = NS_PEERING.plural if rname == 'peering' else resources[rname].plural
                    hit = False
                    for st in e.world.open_streams():
                        if st.kind.plural == plural and st.namespace == ns:
                            e.stream_fault(st, 'err500')
                            hit = True
                    e.log('injected', what=what, hit=hit)
                    return

                async def revise() -> None:
                    async with ins.revised:
                        if action == 'addns':
                            ins.namespaces.add(what)
                        elif action == 'delns':
                            ins.namespaces.discard(what)
                        elif action == 'addres':
                            ins.watched_resources.add(resources[what])
                        elif action == 'delres':
                            ins.watched_resources.discard(resources[what])
                        ins.revised.notify_all()
                    e.log('revised', action=action, what=what)
                e.loop.create_task(revise(), name=f'revise {action} {what}')
            return fn
        for at, action, what in self.params['user']:
            out.append(UserAction(float(at), f'{action}-{what}', mk(action, what)))
        return out

    def check(self, env: Env) -> list[Violation]:
        out: list[Violation] = []
        if env.end_reason in ('stall', 'livelock', 'step-budget'):
            return [self.viol(env, 'no-progress', f'execution ended with {env.end_reason}', end=env.end_reason)]
        injected = [(t, p['what']) for t, k, p in env.obs if k == 'injected' and p['hit']]
        failed = [(t, p['error']) for t, k, p in env.obs if k == 'orchestrator-failed']
        if injected:
            # "an unknown error event is never silently skipped": whichever served pair it hits (the peering objects are watched like
            # anything else), the failure surfaces - the orchestrator does not carry on with a pair that nobody watches any more
            if not failed and not env.owes():
                have0 = {(st.kind.plural, st.namespace) for st in env.world.open_streams()}
                out.append(self.viol(env, 'unknown-error-skipped', f"an unknown ERROR event was injected into the watch of {injected[0][1]} at t={injected[0][0]}; the "
                                                                   f"orchestrator carried on (open watches at the end: {sorted(have0, key=str)})", clause='never-skipped',
                                     what=injected[0][1].split(':')[0]))
            return out
        for t, error in failed:
            out.append(self.viol(env, 'orchestrator-failed', f"t={t}: the orchestrator raised {error}", clause='coverage'))
        if env.owes():
            return out
        ins = env.memo['insights']
        # a cluster-scoped kind is watched once, cluster-wide, as long as anything is served at all
        want = {(r.plural, ns if r.namespaced else None) for r in ins.watched_resources for ns in ins.namespaces}
        if self.params.get('peering'):
            # paused (no resource watches at all) while a served namespace lacks its peering object or shows a live blocker there
            blocked = [ns for ns in ins.namespaces
                       if env.world.get(NS_PEERING, ns, 'default') is None or ns in self.params.get('blocker_in', [])]
            if blocked:
                want = set()
            want |= {(NS_PEERING.plural, ns) for ns in ins.namespaces}
        have: dict[tuple[str, Any], int] = {}
        for s in env.world.open_streams():
            have[(s.kind.plural, s.namespace)] = have.get((s.kind.plural, s.namespace), 0) + 1
        for key in want:
            if have.get(key, 0) != 1:
                out.append(self.viol(env, 'watch-missing' if have.get(key, 0) == 0 else 'watch-duplicated',
                                     f"served pair {key} has {have.get(key, 0)} open watches at quiescence (served: {sorted(want, key=str)}; open: {have})",
                                     clause='coverage'))
        for key, n in have.items():
            if key not in want:
                out.append(self.viol(env, 'watch-redundant', f"pair {key} is not served any more but still has {n} open watch(es)", clause='coverage'))
        return out


# ---- (c) the whole operator: kinds, versions, categories and namespaces come and go in the cluster ------------

import dataclasses

KEX_V2 = dataclasses.replace(KEX, version='v2')
WIDGETS = dataclasses.replace(KEX2, categories=('widgets',))


def _crd_body(kind: Kind, versions: list[str], categories: tuple[str, ...]) -> dict:
    return {'spec': {'group': kind.group, 'scope': 'Namespaced', 'names': {'plural': kind.plural, 'kind': kind.kind, 'categories': list(categories)},
                     'versions': [{'name': v, 'served': True, 'storage': i == 0} for i, v in enumerate(versions)]}}


class DiscoveryScenario(Scenario):
    """kopf.operator(namespaces=['n*']) with one handler selecting a kind by its plural name (any version: the preferred one
    counts) and one selecting by category; the cluster's CRDs, their versions/categories and its namespaces change."""
    name = 'c19-discovery'
    prop = 'C19'
    kinds = [NAMESPACES, EVENTS, CRDS, KEX]
    horizon = 60.0

    def delays(self, env: Env, req: Request) -> bool:
        return False

    def allow_time_deviation(self, env: Env) -> bool:
        return False

    def allow_early_user(self, env: Env, action: UserAction) -> bool:
        return bool(self.params.get('early_user'))

    def setup(self, env: Env) -> None:
        import kopf
        from kv.harness.op import Operator, add_login
        w = env.world
        w.preferred = {}     # type: ignore[attr-defined]
        w.create(NAMESPACES, None, 'n0', {})
        w.create(NAMESPACES, None, 'other', {})
        w.create(CRDS, None, 'kopfexamples.kopf.dev', _crd_body(KEX, ['v1'], ()))
        reg = kopf.OperatorRegistry()
        add_login(reg, w)

        async def ev(**_: Any) -> None:
            return None
        kopf.on.event('kopfexamples', id='by-name', registry=reg)(ev)
        kopf.on.event(category='widgets', id='by-category', registry=reg)(ev)
        self.op = Operator(env, 'A', reg, make_settings(), clusterwide=False, namespaces=['n*'])
        self.op.start()

    def script(self, env: Env) -> list[UserAction]:
        def mk(action: str) -> Any:
            def fn(e: Env) -> None:
                w = e.world
                if action == 'addns':
                    w.create(NAMESPACES, None, 'n1', {})
                elif action == 'delns':
                    w.delete(NAMESPACES, None, 'n1')
                elif action == 'addcrd':
                    w.add_kind(WIDGETS)
                    w.create(CRDS, None, 'kopfwidgets.kopf.dev', dict(_crd_body(WIDGETS, ['v1'], ('widgets',)), metadata={'generation': 1}))
                elif action == 'addcrd-slow':     # the CRD object is there, but the API server does not serve (and discovery does not list) the kind yet
                    w.create(CRDS, None, 'kopfwidgets.kopf.dev', dict(_crd_body(WIDGETS, ['v1'], ('widgets',)), metadata={'generation': 1}))
                elif action == 'establish':       # ... now it does: a status-only update of the CRD (same metadata.generation)
                    w.add_kind(WIDGETS)
                    w.merge(CRDS, None, 'kopfwidgets.kopf.dev', {'status': {'conditions': [{'type': 'Established', 'status': 'True'}]}})
                elif action == 'delcrd':
                    w.remove_kind(WIDGETS)
                    w.delete(CRDS, None, 'kopfwidgets.kopf.dev')
                elif action == 'decat':       # the kind leaves the category the handler selects by
                    w.remove_kind(WIDGETS)
                    w.add_kind(dataclasses.replace(WIDGETS, categories=()))
                    w.merge(CRDS, None, 'kopfwidgets.kopf.dev', dict(_crd_body(WIDGETS, ['v1'], ()), metadata={'generation': 2}))
                elif action == 'addver':      # a new, now preferred, version of the kind selected by name
                    w.add_kind(KEX_V2)
                    w.preferred['kopf.dev'] = 'v2'     # type: ignore[attr-defined]
                    w.merge(CRDS, None, 'kopfexamples.kopf.dev', _crd_body(KEX, ['v2', 'v1'], ()))
                elif action == 'delver':
                    w.remove_kind(KEX_V2)
                    w.preferred.pop('kopf.dev', None)  # type: ignore[attr-defined]
                    w.merge(CRDS, None, 'kopfexamples.kopf.dev', _crd_body(KEX, ['v1'], ()))
                else:
                    raise ValueError(action)
            return fn
        return [UserAction(float(at), action, mk(action)) for at, action in self.params['user']]

    def check(self, env: Env) -> list[Violation]:
        out: list[Violation] = []
        if env.end_reason in ('stall', 'livelock', 'step-budget'):
            return [self.viol(env, 'no-progress', f'execution ended with {env.end_reason}', end=env.end_reason)]
        for t, k, p in env.obs:
            if k == 'operator-exit':
                out.append(self.viol(env, 'operator-failed', f"t={t}: the operator ended ({p.get('how')}: {p.get('error')})", clause='coverage'))
        if env.owes() or out:
            return out
        w = env.world
        kinds = list(w.kinds.values())
        served: set[tuple[str, str, str]] = set()
        # versionless selectors serve a resource only in the PREFERRED version of its API group (references.Resource.preferred)
        pref = w._preferred('kopf.dev', {k.version for k in kinds if k.group == 'kopf.dev'})
        served |= {k.key for k in kinds if k.plural == 'kopfexamples' and k.version == pref}
        served |= {k.key for k in kinds if 'widgets' in k.categories and k.version == pref}
        namespaces = {name for (_, name), o in w.objects[NAMESPACES.key].items() if name.startswith('n') and 'deletionTimestamp' not in o['metadata']}
        want = {(key, ns) for key in served for ns in namespaces}
        have: dict[tuple[Any, Any], int] = {}
        for s in w.open_streams():
            if s.kind.key in (NAMESPACES.key, CRDS.key):
                continue
            have[(s.kind.key, s.namespace)] = have.get((s.kind.key, s.namespace), 0) + 1
        for key in sorted(want, key=str):
            if have.get(key, 0) != 1:
                out.append(self.viol(env, 'watch-missing' if have.get(key, 0) == 0 else 'watch-duplicated',
                                     f"served pair {key} has {have.get(key, 0)} open watches at quiescence (served {sorted(want, key=str)}; open {have})",
                                     clause='coverage', through='discovery'))
        for key, n in have.items():
            if key not in want:
                out.append(self.viol(env, 'watch-redundant', f"pair {key} is not served (any more) but has {n} open watch(es); served {sorted(want, key=str)}",
                                     clause='coverage', through='discovery'))
        return out


def discovery_scenarios(tier: str) -> list[DiscoveryScenario]:
    alphabet = ['addns', 'delns', 'addcrd', 'delcrd', 'decat', 'addver', 'delver', 'addcrd-slow', 'establish']
    depth = 3 if tier == 'quick' else 4
    out = []
    for d in range(0, depth + 1):
        for combo in itertools.product(alphabet, repeat=d):
            ns = crd = cat = ver = slow = False
            ok = True
            for a in combo:
                if a == 'addcrd-slow':
                    ok &= not crd and not slow; slow = True
                    continue
                if a == 'establish':
                    ok &= slow; slow = False; crd = cat = True
                    continue
                if slow and a in ('addcrd', 'delcrd', 'decat'):
                    ok = False
                if a == 'addns':
                    ok &= not ns; ns = True
                elif a == 'delns':
                    ok &= ns; ns = False
                elif a == 'addcrd':
                    ok &= not crd; crd = cat = True
                elif a == 'delcrd':
                    ok &= crd; crd = cat = False
                elif a == 'decat':
                    ok &= crd and cat; cat = False
                elif a == 'addver':
                    ok &= not ver; ver = True
                elif a == 'delver':
                    ok &= ver; ver = False
            if not ok:
                continue
            for spacing in (4.0, 0.0):
                if spacing == 0.0 and d < 2:
                    continue
                user = [(5.0 + i * spacing, a) for i, a in enumerate(combo)]
                out.append(DiscoveryScenario(user=user, spacing=spacing, horizon=5.0 + d * spacing + 30.0))
    return out


def orchestration_scenarios(tier: str) -> list[OrchestrationScenario]:
    out = []
    alphabet = [('addns', 'n1'), ('addns', 'n2'), ('delns', 'n1'), ('delns', 'n2'), ('addres', 'r1'), ('addres', 'r2'), ('delres', 'r1'), ('delres', 'r2'),
                ('addres', 'r3'), ('delres', 'r3')]
    depth = 3 if tier == 'quick' else 4
    for d in range(1, depth + 1):
        for combo in itertools.product(alphabet, repeat=d):
            # meaningful histories only: removals of something present, additions of something absent
            ns: set[str] = {'n0'}
            res: set[str] = set()
            ok = True
            for a, w in combo:
                tgt = ns if a.endswith('ns') else res
                if a.startswith('add'):
                    if w in tgt:
                        ok = False
                    tgt.add(w)
                else:
                    if w not in tgt:
                        ok = False
                    tgt.discard(w)
            if not ok:
                continue
            for spacing in (0.0, 2.0):
                user = [(1.0, 'addns', 'n0')] + [(2.0 + i * spacing, a, w) for i, (a, w) in enumerate(combo)]
                out.append(OrchestrationScenario(user=user, spacing=spacing))
            if d <= 2 and any(a.endswith('ns') for a, _ in combo):
                # the same histories with mandatory namespaced peering: n1 has no peering object, n2 shows a live blocker
                user = [(1.0, 'addns', 'n0'), (1.0, 'addres', 'r1')] + [(3.0 + i * 3.0, a, w) for i, (a, w) in enumerate(combo) if (a, w) != ('addres', 'r1')]
                out.append(OrchestrationScenario(user=user, spacing=3.0, peering=True, peering_in=['n0', 'n2'], blocker_in=['n2']))
    # an unknown ERROR event in the stream of a served pair - a resource's or a peering object's - at some point of a small history
    for target in ('peering:n0', 'r1:n0', 'peering:n2'):
        for at in (5.0, 12.0):
            user = [(1.0, 'addns', 'n0'), (2.0, 'addres', 'r1'), (8.0, 'addns', 'n2'), (at, 'break', target)]
            out.append(OrchestrationScenario(user=sorted(user), spacing=3.0, peering=True, peering_in=['n0', 'n2'], blocker_in=[]))
    return out


def run(tier: str, seed: int) -> CheckResult:
    scripted, searched = watch_scenarios(tier)
    orch = orchestration_scenarios(tier)
    disc = discovery_scenarios(tier)
    orch_back_to_back = [s for s in orch if s.params['spacing'] == 0.0]
    orch_spaced = [s for s in orch if s.params['spacing'] != 0.0]
    disc_pairs = [s for s in disc if s.params['spacing'] == 0.0 and len(s.params['user']) == 2]     # two changes of the cluster in one instant
    if tier == 'quick':
        groups = [('watch-faults-scripted', scripted, 0, 30.0), ('watch-faults-searched', searched, 2, 40.0),
                  ('orchestration-spaced', orch_spaced, 0, 30.0), ('orchestration-back-to-back', orch_back_to_back, 1, 60.0),
                  ('discovery', disc, 0, 60.0), ('discovery-back-to-back-pairs', disc_pairs, 1, 40.0)]
    else:
        groups = [('watch-faults-scripted', scripted, 1, 300.0), ('watch-faults-searched', searched, 3, 600.0),
                  ('orchestration-spaced', orch_spaced, 0, 300.0), ('orchestration-back-to-back', orch_back_to_back, 2, 900.0),
                  ('discovery', disc, 1, 600.0)]
    stats, viols, info, nscen = run_groups(groups, seed=seed)
    return CheckResult(
        prop='C19', tier=tier, seed=seed, stats=stats, violations=viols, scenarios=nscen,
        bound_requested=max(g[2] for g in groups), extra={'groups': info},
        rule="(a) 5 object changes over two objects + one pre-existing x a stream fault {EOF, reset, payload error, client timeout, 410 in-stream, "
             "compaction+EOF (410 on connect), BOOKMARK, unknown event type, unknown ERROR, pause/resume} at 9 positions (thorough: pairs of faults), "
             "an inactivity period, plus a deviation-bounded search placing faults (incl. 429/500/connection errors on connect) and changes; "
             "(b) every meaningful history to depth 3/4 over {add/remove namespace n1/n2, add/remove resource r1/r2} driving the real "
             "orchestrator, spaced and back-to-back, the latter with every placement of each revision among the step boundaries of the "
             "previous adjustment; non-trivial = outcome differs from the scenario's default schedule",
        assumptions=["watch resumption is judged against the newest version yielded or listed, as integers (global counter of the fake server)",
                     "a deletion that happens while no watch is open (410 / pause gap) and is therefore never delivered by the server is reported separately (known finding)"])


def scenario_from(name: str, params: dict[str, Any]) -> Scenario:
    return {'c19-watch': WatchScenario, 'c19-orchestration': OrchestrationScenario, 'c19-discovery': DiscoveryScenario}[name](**params)


def replay(rec: dict[str, Any]) -> int:
    env = execute(scenario_from(rec['scenario'], rec['params']), rec['labels'] or [])
    viols = getattr(env, 'violations', [])
    for t, k, p in env.obs:
        if k in ('yield', 'user', 'streamfault', 'stream-ended', 'pause', 'resume', 'revised', 'orchestrator-failed') or (k == 'srv'):
            print(f'{t:8.3f} {k:12s}', {kk: vv for kk, vv in p.items() if kk in ('type', 'name', 'rv', 'fault', 'error', 'verb', 'path', 'status', 'action', 'what')})
    for v in viols:
        print('VIOLATION', v.kind, v.message)
    return 1 if viols else 0
