"""
C20 Operator lifecycle: startup first, fail-fast, cleanup last, bounded exit.

Subject: the whole kopf.operator() (running.spawn_tasks/run_tasks/startup_cleanup_activities, guarded
root tasks, orchestration, daemon_killer, peering keep-alive) against the in-memory API server, with
peering enabled.
Search: startup/cleanup handler scripts {ok, temporary-then-ok, permanent, two handlers with one failing
while the other retries}; a daemon (obeys / needs cancellation / ignores both) and a slow change handler
in flight; stop triggers {stop flag, cancellation of the operator task} at scripted instants from t=0
(during startup) on and at every explorer-chosen point (deviations); failures injected into essential
tasks: an unknown ERROR event on the resource watch, on the CRD watch, on the peering watch; an object
worker failing unrecoverably (a memo that cannot be copied).
Oracle on the global order of observations: no API request before all startup handlers succeeded; a
failed startup means zero API requests and a raising operator(); ready flag only after startup; after a
trigger or failure operator() returns within the grace periods and re-raises the failure; by then every
daemon has exited (or was abandoned after its timeouts) and the peering record is withdrawn; cleanup
handlers start after all of that and after the last change handler ended; no API request after the first
cleanup handler started; no stall.
"""
from __future__ import annotations

import asyncio
import itertools
from typing import Any

import kopf

from kv.explorer import Env, Scenario, UserAction, Violation, execute
from kv.harness.change import parse_script
from kv.harness.op import Operator, add_login, daemon_fn, make_settings, scripted, scripted_sync
from kv.runner import CheckResult, run_groups
from kv.world import CLUSTER_PEERING, CRDS, EVENTS, KEX, NAMESPACES, Request, Stream

GRACE = 12.0     # exit_timeout 2 + hung-task wait 5 + slack, on top of the daemon's own backoff+timeout


class BadMemo(kopf.Memo):
    """A user memo that cannot be copied: every object worker fails before the throttled section."""
    def __copy__(self) -> Any:
        raise RuntimeError("this memo cannot be copied")


class LifecycleScenario(Scenario):
    name = 'c20'
    prop = 'C20'
    kinds = [NAMESPACES, EVENTS, CRDS, KEX, CLUSTER_PEERING]

    def __init__(self, **params: Any) -> None:
        super().__init__(**params)
        self.horizon = params.get('horizon', 60.0)
        self.grid = params.get('grid')

    def delays(self, env: Env, req: Request) -> bool:
        # the answer to a keep-alive PATCH may be slow (the record is stored at once, the operator learns of it later)
        return bool(self.params.get('slow_keepalive')) and req.method == 'patch' and '/clusterkopfpeerings/' in req.path

    def allow_time_deviation(self, env: Env) -> bool:
        return bool(self.params.get('time_dev'))

    def allow_early_user(self, env: Env, action: UserAction) -> bool:
        return bool(self.params.get('early_user')) and action.name in ('stop', 'cancel')

    def setup(self, env: Env) -> None:
        P = self.params
        env.world.create(CLUSTER_PEERING, None, 'default', {})
        env.world.create(KEX, 'ns', 'a', {'spec': {'x': 1}})
        for i in range(int(P.get('objects', 1)) - 1):
            env.world.create(KEX, 'ns', f'more{i}', {'spec': {'x': 10 + i}})
        reg = kopf.OperatorRegistry()
        add_login(reg, env.world)
        for i, script in enumerate(P.get('startup', [['ok']])):
            # sync_startup: the handlers are plain `def`s, which kopf runs in threads (uncancellable while they run)
            make = scripted_sync if P.get('sync_startup') else scripted
            kopf.on.startup(id='startup' if P.get('same_startup_id') else f'st{i}', registry=reg, backoff=1.0)(make(env, f'st{i}', parse_script(script)))     # (same_startup_id: two functions that happen to carry one id - same name in two modules)
        for i, script in enumerate(P.get('cleanup', [['ok']])):
            kopf.on.cleanup(id=f'cl{i}', registry=reg, backoff=1.0)(scripted(env, f'cl{i}', parse_script(script)))
        kopf.on.create('kopfexamples', id='c1', registry=reg)(scripted(env, 'c1', parse_script([P.get('handler', 'ok~2')])))
        if P.get('daemon'):
            d = P['daemon']
            kopf.daemon('kopfexamples', id='dm', registry=reg, cancellation_backoff=d.get('backoff'), cancellation_timeout=d.get('timeout'))(
                daemon_fn(env, 'dm', reaction=d['reaction'], exit_delay=d.get('exit_delay', 0.0)))
        settings = make_settings(peering__standalone=False, peering__name='default', peering__priority=0, peering__lifetime=60,
                                 peering__mandatory=True, networking__error_backoffs=())
        if P.get('worker_limit'):
            settings.queueing.worker_limit = int(P['worker_limit'])     # more objects than workers: some wait in the scheduler's queue
        kw: dict[str, Any] = {}
        if P.get('bad_memo'):
            kw['memo'] = BadMemo()
        self.op = Operator(env, 'A', reg, settings, **kw)
        self.op.start()

    def script(self, env: Env) -> list[UserAction]:
        out = []
        for at, action in self.params.get('user', []):
            out.append(UserAction(float(at), action, self._act(action)))
        return out

    def _act(self, action: str) -> Any:
        def fn(env: Env) -> None:
            w = env.world
            if action == 'stop':
                self.op.stop()
            elif action == 'cancel':
                self.op.cancel()
            elif action.startswith('break:'):
                plural = action.split(':', 1)[1]
                hit = False
                for s in w.open_streams():
                    if s.kind.plural == plural:
                        env.stream_fault(s, 'err500')
                        hit = True
                env.log('injected', what=action, hit=hit)
            elif action == 'delete-a':
                w.delete(KEX, 'ns', 'a')
            elif action == 'create-b':
                w.create(KEX, 'ns', 'b', {'spec': {'x': 2}})
            else:
                raise ValueError(action)
        return fn

    def done(self, env: Env) -> bool:
        return self.op.task.done() and env.user_idx >= len(env.user)

    def check(self, env: Env) -> list[Violation]:
        out: list[Violation] = []
        if env.end_reason == 'stall' or env.loop.stall is not None:
            return [self.viol(env, 'stall', f"the event loop stalled: {env.loop.stall}", clause='bounded-exit')]
        if env.end_reason in ('livelock', 'step-budget'):
            return [self.viol(env, 'no-progress', f'execution ended with {env.end_reason}', end=env.end_reason)]
        P = self.params
        obs = env.obs
        w = env.world
        startup_scripts = P.get('startup', [['ok']])
        startup_fails = any(k == 'call' and p['id'].startswith('st') and p['outcome'].split(',')[0].split('~')[0] == 'perm' for _, k, p in obs)
        # all API activity of the operator, in time order: (t, origin, path)
        api = sorted([(r.t_issued, r.origin, r.path) for r in w.requests if r.opid == 'A'] + [(t, o, p) for t, o, p, op in w.auto_log if op == 'A'])
        exit_ev = next(((t, p) for t, k, p in obs if k == 'operator-exit'), None)
        st_calls = [(t, p) for t, k, p in obs if k == 'call' and p['id'].startswith('st')]
        st_rets = [(t, p) for t, k, p in obs if k == 'ret' and p['id'].startswith('st')]
        cl_calls = [(t, p) for t, k, p in obs if k == 'call' and p['id'].startswith('cl')]
        # ---- startup first ----
        ok_times: dict[str, float] = {}
        for (t, p) in st_calls:
            if p['outcome'].split(',')[0].split('~')[0] == 'ok':
                ok_times[p['id']] = t
        stopped_early = any(k in ('stop', 'cancel') and t <= max([tt for tt, _ in st_calls] + [0.0]) + 0.001 for t, k, p in obs)
        all_started = len(ok_times) == len(startup_scripts)
        t_started = max(ok_times.values()) if all_started and ok_times else None
        first_api = api[0][0] if api else None
        nk0 = {'pattern': 'namesake-startup-handlers'} if P.get('same_startup_id') and startup_fails else {}
        if first_api is not None and (t_started is None or first_api < t_started):
            out.append(self.viol(env, 'api-before-startup', f"API request {api[0][2]} by {api[0][1]} at t={first_api}, startup handlers succeeded at {t_started} "
                                                            f"(calls: {[(t, p['id'], p['outcome']) for t, p in st_calls]})", clause='startup-first', **nk0))
        if startup_fails:
            # the structural pattern of a known defect: several startup handlers under ONE id - their outcomes are kept by id, the later one's wins
            nk = {'pattern': 'namesake-startup-handlers'} if P.get('same_startup_id') else {}
            if api:
                out.append(self.viol(env, 'api-after-failed-startup', f"a startup handler failed permanently, yet {len(api)} API requests were made: {api[:3]}",
                                     clause='fail-fast', **nk))
            finals = {}
            for (t, p) in st_calls:
                if p['outcome'].split(',')[0].split('~')[0] in ('ok', 'perm'):
                    finals[p['id']] = t
            concluded = max(finals.values()) if len(finals) == len(startup_scripts) else None
            interrupted = any(k in ('stop', 'cancel') and (concluded is None or t <= concluded) for t, k, p in obs)
            if exit_ev is not None and exit_ev[1]['how'] == 'returned' and not interrupted:
                out.append(self.viol(env, 'failed-startup-not-raised', "a startup handler failed permanently but operator() returned normally", clause='fail-fast', **nk))
            if exit_ev is None and not env.owes():
                out.append(self.viol(env, 'failed-startup-lingers', "a startup handler failed permanently but operator() never returned", clause='fail-fast', **nk))
            if self.op.ready_flag is not None and self.op.ready_flag.is_set():
                out.append(self.viol(env, 'ready-after-failed-startup', "the ready flag is raised although startup failed", clause='ready', **nk))
            return out
        if self.op.ready_flag is not None and self.op.ready_flag.is_set() and t_started is None:
            out.append(self.viol(env, 'ready-before-startup', "the ready flag is raised although not all startup handlers succeeded", clause='ready'))
        # ---- triggers and failures ----
        trigger = None
        for t, k, p in obs:
            if k in ('stop', 'cancel'):
                trigger = (t, k)
                break
            if k == 'injected' and p['hit']:
                trigger = (t, p['what'])
                break
        if P.get('bad_memo') and trigger is None and t_started is not None:
            listed = next((t for t, k, p in obs if k == 'srv' and p.get('path', '').endswith('/kopfexamples') and p['verb'] in ('serve', 'respond')), None)
            if listed is not None:
                trigger = (listed, 'worker-crash')   # the first listed object makes its worker fail
        failure = trigger is not None and trigger[1] not in ('stop', 'cancel')
        if trigger is not None and not env.owes():
            d = P.get('daemon') or {}
            dgrace = (d.get('backoff') or 0.0) + (d.get('timeout') or 0.0) if d else 0.0
            cleanup_time = sum(o.delay or 0 for s in P.get('cleanup', [['ok']]) for o in parse_script(s) if o.kind == 'temp') + 2
            limit = trigger[0] + GRACE + dgrace + cleanup_time
            unbounded = d and d.get('timeout') is None and d.get('reaction') in ('ignore',) or (d and d.get('reaction') == 'cancel' and d.get('timeout') is None)
            if exit_ev is None:
                if env.now > limit and not unbounded:
                    stuck = 'a daemon that swallows cancellations' if d.get('reaction') == 'ignore' else 'nothing known'
                    out.append(self.viol(env, 'lingers-half-alive' if failure else 'does-not-exit',
                                         f"after {trigger[1]} at t={trigger[0]} operator() had not returned by t={env.now} (grace until {limit}); still running: {stuck}",
                                         clause='shuts-down', trigger=trigger[1], blocked_by=stuck))
            else:
                if exit_ev[0] > limit and not unbounded:
                    out.append(self.viol(env, 'exit-too-late', f"after {trigger[1]} at t={trigger[0]} operator() returned only at t={exit_ev[0]} (grace until {limit})",
                                         clause='bounded-exit', trigger=trigger[1].split(':')[0]))
                if failure and exit_ev[1]['how'] != 'raised':
                    out.append(self.viol(env, 'failure-not-reraised', f"after {trigger[1]} operator() ended as '{exit_ev[1]['how']}' instead of re-raising the failure",
                                         clause='re-raises', trigger=trigger[1].split(':')[0]))
        # a stop is a stop: once the drain window (queueing.exit_timeout = 2 s) is over, no further object starts being handled
        if trigger is not None:
            late = [(t, p['name']) for t, k, p in obs if k == 'call' and p['id'] == 'c1' and t > trigger[0] + 2.0 + 0.5]
            if late:
                out.append(self.viol(env, 'handling-started-after-stop', f"after {trigger[1]} at t={trigger[0]} the change handler was still started for {late}",
                                     clause='shuts-down', trigger=trigger[1].split(':')[0]))
        # ---- order at exit ----
        if exit_ev is not None and exit_ev[1]['how'] != 'cancelled':
            t_exit = exit_ev[0]
            # daemons: exited, or abandoned after backoff+timeout
            enters = [(t, p) for t, k, p in obs if k == 'daemon-enter']
            exits = {p['inst']: t for t, k, p in obs if k == 'daemon-exit' and p.get('how') != 'teardown'}
            flags = {p['inst']: t for t, k, p in obs if k == 'daemon-flag'}
            d = P.get('daemon') or {}
            for t, p in enters:
                if p['inst'] in exits and exits[p['inst']] <= t_exit:
                    continue
                abandoned_ok = d.get('timeout') is not None and p['inst'] in flags and t_exit >= flags[p['inst']] + (d.get('backoff') or 0.0) + d['timeout']
                if not abandoned_ok:
                    out.append(self.viol(env, 'daemon-outlives-operator', f"operator() returned at {t_exit} while daemon instance {p['inst']} had neither exited "
                                                                          f"nor been abandoned (flag at {flags.get(p['inst'])})", clause='daemons-stopped'))
            # peering record withdrawn
            peering = w.get(CLUSTER_PEERING, None, 'default')
            if peering is not None and 'A' in (peering.get('status') or {}) and t_started is not None and exit_ev[1]['how'] in ('returned', 'raised'):
                touched = any(r.path.endswith('/clusterkopfpeerings/default') and r.status == 200 for r in w.requests)
                if touched:
                    out.append(self.viol(env, 'peering-record-left', f"operator() ended ({exit_ev[1]['how']}) but its peering record is still there: {peering.get('status')}",
                                         clause='peering-withdrawn'))
            # cleanup last
            if cl_calls:
                t_cl = cl_calls[0][0]
                idx_cl = next(i for i, (t, k, p) in enumerate(obs) if k == 'call' and p['id'].startswith('cl'))
                for i, (t, k, p) in enumerate(obs):
                    if i > idx_cl and k == 'call' and not p['id'].startswith('cl') and p['id'] != 'login':
                        out.append(self.viol(env, 'handler-after-cleanup', f"t={t}: {p['id']} invoked after the cleanup handlers started at {t_cl}", clause='cleanup-last'))
                    if i > idx_cl and k == 'srv' and p.get('op') == 'A' and p['verb'] in ('serve', 'respond') and p.get('t_issued', 0) > t_cl:
                        out.append(self.viol(env, 'api-after-cleanup', f"t={t}: API request {p['method']} {p['path']} by {p['origin']} issued after cleanup started at {t_cl}",
                                             clause='cleanup-last'))
                    if i < idx_cl and False:
                        pass
                running_handlers = 0
                for i, (t, k, p) in enumerate(obs[:idx_cl]):
                    if k == 'call' and p['id'] == 'c1':
                        running_handlers += 1
                    if k == 'ret' and p['id'] == 'c1':
                        running_handlers -= 1
                if running_handlers > 0:
                    out.append(self.viol(env, 'cleanup-while-handler-runs', f"cleanup started at {t_cl} while a change handler was still running", clause='cleanup-last'))
                for t, p in enters:
                    ex = exits.get(p['inst'])
                    # (without a cancellation timeout the daemon stopper gives the daemon up right after the backoff - documented: such a daemon
                    # is ended by the final sweep of the exiting operator, which the rule above holds it to)
                    given_up = p['inst'] in flags and t_cl >= flags[p['inst']] + (d.get('backoff') or 0.0) + (d.get('timeout') or 0.0)
                    if (ex is None or ex > t_cl) and not given_up:
                        out.append(self.viol(env, 'cleanup-while-daemon-runs', f"cleanup started at {t_cl} while daemon instance {p['inst']} had neither exited nor been abandoned",
                                             clause='cleanup-last'))
            elif t_started is not None and not stopped_early and exit_ev[1]['how'] in ('returned', 'raised') and P.get('cleanup', [['ok']]):
                out.append(self.viol(env, 'cleanup-skipped', f"operator() ended ({exit_ev[1]['how']}) without running the cleanup handlers", clause='cleanup-last'))
        return out


def scenarios(tier: str) -> tuple[list[LifecycleScenario], list[LifecycleScenario]]:
    scripted_: list[LifecycleScenario] = []
    searched: list[LifecycleScenario] = []
    startups = [[['ok']], [['temp1', 'ok']], [['perm']], [['ok'], ['temp1', 'perm']], [['temp1', 'ok'], ['perm']], [['perm'], ['temp1', 'ok']]]
    daemons = [None, dict(reaction='obeys'), dict(reaction='cancel', backoff=1.0, timeout=2.0), dict(reaction='ignore', backoff=1.0, timeout=2.0),
               dict(reaction='cancel', exit_delay=1.0, backoff=None, timeout=3.0)]
    trigger_times = [0.0, 0.5, 1.0, 1.5, 2.5, 5.0, 12.0]
    for st in startups:
        for trig in ('stop', 'cancel'):
            for at in ((0.0, 0.5, 2.5, 12.0) if st != [['ok']] else trigger_times):
                scripted_.append(LifecycleScenario(startup=st, daemon=daemons[2], user=[(at, trig)], horizon=at + 40.0))
    for dm in daemons + [dict(reaction='cancel')]:
        for trig, at in itertools.product(('stop', 'cancel'), (1.0, 2.0, 5.0)):
            for cl in ([['ok']], [['temp1', 'ok']], [['ok'], ['perm']]):
                scripted_.append(LifecycleScenario(daemon=dm, cleanup=cl, user=[(at, trig)], horizon=at + 40.0))
    # failures of essential tasks
    # (incl. a daemon that leaves only when cancelled and has no cancellation timeout: it is the final sweep of run_tasks that ends it)
    for dm in (None, daemons[2], dict(reaction='cancel'), dict(reaction='cancel', exit_delay=1.0)):
        for what, at in itertools.product(('break:kopfexamples', 'break:customresourcedefinitions', 'break:clusterkopfpeerings'), (1.0, 5.0)):
            scripted_.append(LifecycleScenario(daemon=dm, user=[(at, what), (at + 1.0, 'create-b')], horizon=at + 45.0))
        scripted_.append(LifecycleScenario(daemon=dm, bad_memo=True, user=[(3.0, 'create-b')], horizon=45.0))
    # the object is deleted shortly before the stop / the failure: its daemon is already being stopped (inside its backoff / slow to leave)
    # when the operator goes down - it is stopped all the same before the cleanup handlers run and before operator() returns
    for dm in (dict(reaction='cancel', backoff=4.0, timeout=2.0), dict(reaction='obeys', exit_delay=3.0), dict(reaction='ignore', backoff=3.0, timeout=2.0),
               dict(reaction='cancel', exit_delay=1.0, backoff=2.0, timeout=3.0)):
        for trig, gap in itertools.product(('stop', 'cancel', 'break:kopfexamples'), (0.5, 1.0, 2.5)):
            scripted_.append(LifecycleScenario(daemon=dm, handler='ok', user=[(5.0, 'delete-a'), (5.0 + gap, trig)], horizon=5.0 + gap + 45.0))
    # synchronous (threaded) startup handlers that take 3 s: a stop / cancellation before, during and after their run
    for st in ([['ok~3']], [['ok~3'], ['ok']], [['temp1~3', 'ok~3']]):
        for trig, at in itertools.product(('stop', 'cancel'), (0.0, 1.0, 2.5, 3.0, 5.0, 12.0)):
            scripted_.append(LifecycleScenario(startup=st, sync_startup=True, daemon=None, user=[(at, trig)], horizon=at + 45.0))
    # more objects than workers (worker_limit): the queued ones must not be worked off after the stop / the failure
    for trig, at in itertools.product(('stop', 'cancel', 'break:kopfexamples'), (1.0, 7.0)):
        scripted_.append(LifecycleScenario(daemon=None, handler='ok~6', objects=4, worker_limit=1, user=[(at, trig)], horizon=at + 50.0))
        scripted_.append(LifecycleScenario(daemon=None, handler='ok~6', objects=5, worker_limit=2, user=[(at, trig)], horizon=at + 50.0))
    # two startup handlers that carry one id (two functions of the same name): one fails for good, the other succeeds - in both orders
    for st in ([['perm'], ['ok']], [['ok'], ['perm']], [['perm'], ['temp1', 'ok']]):
        for user in ([], [(12.0, 'stop')]):
            scripted_.append(LifecycleScenario(startup=st, same_startup_id=True, daemon=None, user=user, horizon=50.0))
    # the explorer places the trigger anywhere (incl. during startup and shutdown sequences)
    for st, dm, trig in itertools.product([[['ok']], [['temp1', 'ok']]], (daemons[1], daemons[2]), ('stop', 'cancel')):
        searched.append(LifecycleScenario(startup=st, daemon=dm, user=[(30.0, trig)], horizon=70.0, early_user=True))
    return scripted_, searched


def keepalive_scenarios() -> list[LifecycleScenario]:
    """The stop / cancellation / failure comes while the answer to a keep-alive PATCH (the first one, a later one) is still on its way: the
    record is on the server already - and is withdrawn all the same when the operator goes."""
    out = []
    for trig, at in itertools.product(('stop', 'cancel', 'break:kopfexamples'), (0.0, 0.5, 50.0)):
        out.append(LifecycleScenario(startup=[['ok']], daemon=None, user=[(at, trig)] + ([(at, 'create-b')] if trig.startswith('break') else []),
                                     horizon=at + 45.0, slow_keepalive=True))
    return out


def run(tier: str, seed: int) -> CheckResult:
    scripted_, searched = scenarios(tier)
    if tier == 'quick':
        groups = [('scripted-triggers-and-failures', scripted_, 0, 60.0), ('trigger-anywhere', searched, 1, 60.0), ('keepalive-answer-in-flight', keepalive_scenarios(), 1, 30.0)]
    else:
        groups = [('scripted-triggers-and-failures', scripted_, 1, 600.0), ('trigger-anywhere', searched, 2, 900.0), ('keepalive-answer-in-flight', keepalive_scenarios(), 2, 300.0)]
    stats, viols, info, nscen = run_groups(groups, seed=seed)
    return CheckResult(
        prop='C20', tier=tier, seed=seed, stats=stats, violations=viols, scenarios=nscen,
        bound_requested=max(g[2] for g in groups), extra={'groups': info},
        rule="the whole kopf.operator() with peering on: startup scripts {ok; temp,ok; perm; two handlers with one failing while the other retries} x "
             "stop trigger {stop flag, task cancellation} at {0, 0.5, 1, 1.5, 2.5, 5, 12}; daemon {none, obeys, needs cancellation, ignores both, slow exit} "
             "x cleanup scripts x triggers; failures: unknown ERROR event on the resource / CRD / peering watch, an uncopyable memo (every object worker "
             "fails); 'trigger-anywhere': the explorer moves the trigger to every choice point of the run; non-trivial = outcome differs from the default "
             "schedule",
        assumptions=["grace period: 12 virtual seconds (exit_timeout 2 + hung-task wait 5 + slack) + the daemon's cancellation_backoff+timeout + cleanup retries",
                     "poster and credentials-retriever failures are not injected (posting is disabled in the harness)"])


def scenario_from(name: str, params: dict[str, Any]) -> Scenario:
    return LifecycleScenario(**params)


def replay(rec: dict[str, Any]) -> int:
    env = execute(scenario_from(rec['scenario'], rec['params']), rec['labels'] or [])
    viols = getattr(env, 'violations', [])
    for t, k, p in env.obs:
        if k in ('user', 'call', 'ret', 'start', 'stop', 'cancel', 'operator-exit', 'injected', 'daemon-enter', 'daemon-flag', 'daemon-exit', 'daemon-cancelled', 'login'):
            print(f'{t:8.3f} {k:14s}', {kk: vv for kk, vv in p.items() if kk in ('id', 'name', 'outcome', 'how', 'error', 'what', 'hit', 'inst', 'reason')})
    for v in viols:
        print('VIOLATION', v.kind, v.message)
    return 1 if viols else 0
