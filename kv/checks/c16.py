"""
C16 Persistence storages round-trip, isolate and produce valid annotation names.

(a) Id pool (built to collide: lengths around the 63-character cut, shared 63-character prefixes,
    sub-handler paths, field suffixes, every character of [A-Za-z0-9_./<>-] at the first, last and cut
    positions) + ALL ids of length <= 3 (quick) / 4 over an 8-letter sub-alphabet: for every storage
    configuration and object flavour (plain, ReplicaSet owned by a Deployment): store -> server applies
    -> fetch == record; purge -> server applies -> nothing of it is left; every annotation name written
    is a valid Kubernetes qualified name; names are a pure function of (id, configuration, flavour);
    long ids sharing a prefix get distinct names.
(b) State graph over one object's annotations/status: store/purge/touch/diff-base store by the operator,
    the same by a foreign operator (other prefix), user annotation edits; after every edge the operator's
    fetches equal a dictionary reference model, and the others' data is untouched.
"""
from __future__ import annotations

import copy
import itertools
import json
import re
from typing import Any

from kopf._cogs.configs import diffbase, progress
from kopf._cogs.structs import bodies, ids as ids_, patches

from kv.explorer import Stats, Violation
from kv.ref import rfc7386
from kv.runner import CheckResult
from kv.world import normalise

NAME_RE = re.compile(r'^[A-Za-z0-9]([-A-Za-z0-9_.]*[A-Za-z0-9])?$')
DNS_LABEL = re.compile(r'^[a-z0-9]([-a-z0-9]*[a-z0-9])?$')


def valid_qualified_name(key: str) -> str | None:
    """None if `key` is a valid annotation name, else the reason."""
    if key.count('/') > 1:
        return 'more than one slash'
    prefix, _, name = key.rpartition('/')
    if '/' in key:
        if not prefix or len(prefix) > 253:
            return f'prefix length {len(prefix)}'
        for label in prefix.split('.'):
            if not DNS_LABEL.match(label) or len(label) > 63:
                return f'prefix label {label[:20]!r} is not a DNS label'
    if not name:
        return 'empty name'
    if len(name) > 63:
        return f'name part has {len(name)} > 63 characters'
    if not NAME_RE.match(name):
        if not name[0].isalnum():
            return 'name part starts with a non-alphanumeric character'
        if not name[-1].isalnum():
            return 'name part ends with a non-alphanumeric character'
        return 'name part contains an illegal character'
    return None


ALPHABET = 'abzABZ019_./<>-'


def id_pool(tier: str) -> list[str]:
    ids: list[str] = []
    for n in (1, 2, 58, 62, 63, 64, 65, 253, 300):
        ids.append('h' * n)
    base63 = 'p' * 63
    ids += [base63 + 'a', base63 + 'b', base63 + 'aa', 'q' * 62 + 'x', 'q' * 62 + 'y' + 'tail']
    ids += ['a/b', 'parent/child/grandchild', 'fn/spec.x', 'fn/spec.nested.field', 'Outer.method', 'mod.fn', '<lambda>',
            'fn_', '_fn', 'a/', '/a', '-x', 'x-', '.x', 'x.', '<x>', 'fn/spec.x-', 'a__b', 'a..b', 'a--b', 'A', '0', 'Z9']
    for ch in ALPHABET:
        ids.append(ch + 'mid')
        ids.append('mid' + ch)
        ids.append('m' * 62 + ch + 'm' * 10)      # the character right at the cut position
        ids.append('m' * 61 + ch + 'mm' + 'z' * 5)
        if tier != 'quick':
            ids.append('m' * 58 + ch + 'm' * 10)
            ids.append(ch * 64)
    small = 'aA0_./<-'
    maxlen = 3 if tier == 'quick' else 4
    for n in range(1, maxlen + 1):
        for combo in itertools.product(small, repeat=n):
            ids.append(''.join(combo))
    seen = set()
    out = []
    for i in ids:
        if i not in seen:
            seen.add(i)
            out.append(i)
    return out


class Cfg:
    def __init__(self, name: str, prog: Any, base: Any, prefix: str | None) -> None:
        self.name, self.prog, self.base, self.prefix = name, prog, base, prefix


def configs() -> list[Cfg]:
    out = [Cfg('smart-default', progress.SmartProgressStorage(), diffbase.AnnotationsDiffBaseStorage(), 'kopf.zalando.org')]
    for prefix in ('kopf.zalando.org', 'my-op.example.com'):
        for v1 in (True, False):
            out.append(Cfg(f'annotations[{prefix},v1={v1}]', progress.AnnotationsProgressStorage(prefix=prefix, v1=v1),
                           diffbase.AnnotationsDiffBaseStorage(prefix=prefix, v1=v1), prefix))
    out.append(Cfg('status', progress.StatusProgressStorage(), diffbase.StatusDiffBaseStorage(), None))
    # records kept directly under `status` (docs/configuration.rst: field='status.my-operator'), the touch field elsewhere
    out.append(Cfg('status-flat', progress.StatusProgressStorage(field='status.my-operator', touch_field='status.my-dummy'),
                   diffbase.StatusDiffBaseStorage(field='status.my-base'), None))
    out.append(Cfg('smart-flat', progress.SmartProgressStorage(field='status.my-operator', touch_field='status.my-dummy'),
                   diffbase.AnnotationsDiffBaseStorage(), 'kopf.zalando.org'))
    out.append(Cfg('multi', progress.MultiProgressStorage([progress.AnnotationsProgressStorage(prefix='multi.example.com'),
                                                           progress.StatusProgressStorage(name='multi')]),
                   diffbase.MultiDiffBaseStorage([diffbase.AnnotationsDiffBaseStorage(prefix='multi.example.com'),
                                                  diffbase.StatusDiffBaseStorage(name='multi')]), 'multi.example.com'))
    return out


def flavours() -> dict[str, dict]:
    meta = {'name': 'a', 'namespace': 'ns', 'uid': 'u1', 'annotations': {'user/data': 'ü', 'plain': 'v', 'kopf.zalando.org.uk/region': 'eu', 'my-op.example.com.au/r': 'au',
                                                                'multi.example.community/x': 'y'}}
    return {
        'plain': {'apiVersion': 'kopf.dev/v1', 'kind': 'KopfExample', 'metadata': copy.deepcopy(meta), 'spec': {'x': 1}, 'status': {'phase': 'Ready', 'replicas': 3}},
        'replicaset-of-deployment': {'apiVersion': 'apps/v1', 'kind': 'ReplicaSet',
                                     'metadata': dict(copy.deepcopy(meta), ownerReferences=[{'kind': 'Deployment', 'name': 'd', 'uid': 'x'}]),
                                     'spec': {'replicas': 1}, 'status': {'phase': 'Ready', 'replicas': 3}},
    }


RECORDS = [
    dict(started='2030-01-01T00:00:00.000000+00:00', stopped=None, delayed='2030-01-01T00:01:00.000000+00:00', purpose='create',
         retries=1, success=False, failure=False, message='tëmp ✓ "quoted" \n newline', subrefs=None),
    dict(started='2030-01-01T00:00:00.000000+00:00', stopped='2030-01-01T00:00:01.000000+00:00', delayed=None, purpose=None,
         retries=0, success=True, failure=False, message=None, subrefs=['a/b', 'a/c']),
]


def strip_none(d: Any) -> Any:
    return {k: v for k, v in d.items() if v is not None} if isinstance(d, dict) else d


def server_apply(raw: dict, patch: patches.Patch) -> dict:
    return normalise(rfc7386.strip_nulls(rfc7386.merge(raw, dict(patch))))


def anns(raw: dict) -> dict:
    return dict((raw.get('metadata') or {}).get('annotations') or {})


def sig_id(i: str) -> str:
    """A coarse, stable class of an id for violation signatures."""
    first = 'alnum' if i[0].isalnum() else repr(i[0])
    last = 'alnum' if i[-1].isalnum() else repr(i[-1])
    size = 'short' if len(i) <= 57 else ('near-cut' if len(i) <= 63 else 'long')
    return f'first={first},last={last},{size}'


def pool_check(tier: str, stats: Stats) -> list[Violation]:
    viols: dict[str, Violation] = {}
    pool = id_pool(tier)

    def add(kind: str, msg: str, **sig: Any) -> None:
        v = Violation('C16', kind, msg, dict(kind=kind, **sig), scenario='pool', labels=None)  # type: ignore[arg-type]
        viols.setdefault(v.key(), v)

    for cfg in configs():
        for fname, raw0 in flavours().items():
            keys_of: dict[str, frozenset[str]] = {}
            for hid in pool:
                rec = RECORDS[len(hid) % 2]
                body0 = bodies.Body(copy.deepcopy(raw0))
                patch = patches.Patch(body=body0)
                try:
                    cfg.prog.store(key=hid, record=copy.deepcopy(rec), body=body0, patch=patch)  # type: ignore[arg-type]
                    raw1 = server_apply(raw0, patch)
                    got = cfg.prog.fetch(key=hid, body=bodies.Body(raw1))
                except Exception as e:
                    add('storage-raises', f"[{cfg.name}/{fname}] store/fetch of id {hid[:70]!r} raised {type(e).__name__}: {e}", exc=type(e).__name__, idclass=sig_id(hid))
                    continue
                stats.executions += 1
                new_keys = frozenset(k for k in set(anns(raw1)) - set(anns(raw0)) if not k.endswith('/kopf-managed'))
                keys_of[hid] = new_keys
                stats.states.add(hash((cfg.name, fname, new_keys)))
                stats.transitions.add(hash((cfg.name, fname, hid)))
                if new_keys:
                    stats.nontrivial.add(hash((cfg.name, fname, hid)))
                if got is None or strip_none(dict(got)) != strip_none(rec):
                    add('roundtrip', f"[{cfg.name}/{fname}] id {hid[:70]!r}: stored {strip_none(rec)}, fetched {got}", idclass=sig_id(hid), config=cfg.name)
                for k in new_keys:
                    why = valid_qualified_name(k)
                    if why is not None:
                        cls = 'edge-char-non-alnum' if 'starts with' in why or 'ends with' in why else \
                            ('too-long' if '> 63' in why else 'other')
                        add('invalid-annotation-name', f"[{cfg.name}/{fname}] id {hid[:70]!r} -> annotation {k[:120]!r}: {why}", cls=cls)
                # purity: a fresh storage object of the same configuration names it identically
                again = patches.Patch(body=body0)
                cfg2 = [c for c in configs() if c.name == cfg.name][0]
                cfg2.prog.store(key=hid, record=copy.deepcopy(rec), body=bodies.Body(copy.deepcopy(raw0)), patch=again)  # type: ignore[arg-type]
                if frozenset(k for k in set(anns(server_apply(raw0, again))) - set(anns(raw0)) if not k.endswith('/kopf-managed')) != new_keys:
                    add('names-not-stable', f"[{cfg.name}/{fname}] id {hid[:70]!r} is named differently by a fresh storage object", config=cfg.name)
                # user data and unrelated keys untouched
                for k, v in anns(raw0).items():
                    if anns(raw1).get(k) != v:
                        add('user-data-disturbed', f"[{cfg.name}/{fname}] storing id {hid[:40]!r} changed annotation {k!r}", config=cfg.name)
                if raw1.get('spec') != raw0.get('spec'):
                    add('user-data-disturbed', f"[{cfg.name}/{fname}] storing id {hid[:40]!r} changed spec", config=cfg.name)
                # purge
                body1 = bodies.Body(copy.deepcopy(raw1))
                p2 = patches.Patch(body=body1)
                cfg.prog.purge(key=hid, body=body1, patch=p2)
                raw2 = server_apply(raw1, p2)
                left = set(anns(raw2)) & new_keys
                if left or cfg.prog.fetch(key=hid, body=bodies.Body(raw2)) is not None:
                    add('purge-incomplete', f"[{cfg.name}/{fname}] after purging id {hid[:70]!r}: keys left {sorted(left)}", config=cfg.name, idclass=sig_id(hid))
                # purge before the store was applied cancels it within the same patch
                p3 = patches.Patch(body=body0)
                cfg.prog.store(key=hid, record=copy.deepcopy(rec), body=body0, patch=p3)  # type: ignore[arg-type]
                cfg.prog.purge(key=hid, body=body0, patch=p3)
                raw3 = server_apply(raw0, p3)
                if set(anns(raw3)) & new_keys:
                    add('purge-incomplete', f"[{cfg.name}/{fname}] store+purge of {hid[:70]!r} in one patch leaves {sorted(set(anns(raw3)) & new_keys)}", config=cfg.name, idclass='same-patch')
            # several operations on one id accumulated in ONE patch (as one processing cycle does): the last one wins
            other = RECORDS[0]
            for hid in [h for h in pool if len(h) in (1, 2, 62, 64)][:6] + ['a/b', 'h' * 70]:
                rec = RECORDS[1]
                body0 = bodies.Body(copy.deepcopy(raw0))
                p0 = patches.Patch(body=body0)
                cfg.prog.store(key=hid, record=copy.deepcopy(rec), body=body0, patch=p0)  # type: ignore[arg-type]
                raw1 = server_apply(raw0, p0)                      # the object already carries `rec`
                for name, steps in (('purge, then the same record again', ['purge', rec]), ('another record, then the same record again', [other, rec]),
                                    ('the same record, then purge', [rec, 'purge']), ('another record, then purge, then the record', [other, 'purge', rec])):
                    body1 = bodies.Body(copy.deepcopy(raw1))
                    pp = patches.Patch(body=body1)
                    for st in steps:
                        if st == 'purge':
                            cfg.prog.purge(key=hid, body=body1, patch=pp)
                        else:
                            cfg.prog.store(key=hid, record=copy.deepcopy(st), body=body1, patch=pp)  # type: ignore[arg-type]
                    got = cfg.prog.fetch(key=hid, body=bodies.Body(server_apply(raw1, pp)))
                    want = None if steps[-1] == 'purge' else strip_none(steps[-1])
                    stats.executions += 1
                    if (strip_none(dict(got)) if got is not None else None) != want:
                        add('accumulated-operations', f"[{cfg.name}/{fname}] id {hid[:30]!r} already stored; one patch with [{name}] reads back {got}, expected {want}",
                            config=cfg.name, seq=name)
            # long ids sharing a prefix do not talk across: each reads back its own record, purging one keeps the other
            long_ids = [h for h in pool if len(h) > 63]
            for a, b in itertools.combinations(long_ids, 2):
                if a[:60] != b[:60]:
                    continue
                body0 = bodies.Body(copy.deepcopy(raw0))
                p = patches.Patch(body=body0)
                cfg.prog.store(key=a, record=copy.deepcopy(RECORDS[0]), body=body0, patch=p)  # type: ignore[arg-type]
                cfg.prog.store(key=b, record=copy.deepcopy(RECORDS[1]), body=body0, patch=p)  # type: ignore[arg-type]
                raw1 = server_apply(raw0, p)
                ga, gb = cfg.prog.fetch(key=a, body=bodies.Body(raw1)), cfg.prog.fetch(key=b, body=bodies.Body(raw1))
                stats.executions += 1
                if ga is None or gb is None or strip_none(dict(ga)) != strip_none(RECORDS[0]) or strip_none(dict(gb)) != strip_none(RECORDS[1]):
                    add('name-collision', f"[{cfg.name}/{fname}] long ids {a[:70]!r}.. and {b[:70]!r}.. are not kept apart: "
                                          f"fetched {ga} / {gb}", config=cfg.name)
                    continue
                body1 = bodies.Body(copy.deepcopy(raw1))
                p2 = patches.Patch(body=body1)
                cfg.prog.purge(key=a, body=body1, patch=p2)
                gb2 = cfg.prog.fetch(key=b, body=bodies.Body(server_apply(raw1, p2)))
                if gb2 is None or strip_none(dict(gb2)) != strip_none(RECORDS[1]):
                    add('name-collision', f"[{cfg.name}/{fname}] purging long id {a[:70]!r}.. damages the record of {b[:70]!r}..: {gb2}", config=cfg.name)
    stats.samples.append({'pool_size': len(pool), 'examples': pool[9:14] + pool[-3:]})
    return list(viols.values())


def graph_check(tier: str, stats: Stats) -> list[Violation]:
    """Operation sequences on one object against a dictionary model."""
    viols: dict[str, Violation] = {}
    depth = 3 if tier == 'quick' else 4
    ids = ['h1', 'h1/sub', 'p' * 63 + 'a', 'p' * 63 + 'b']
    foreign = Cfg('foreign', progress.AnnotationsProgressStorage(prefix='other-op.example.com'),
                  diffbase.AnnotationsDiffBaseStorage(prefix='other-op.example.com'), 'other-op.example.com')

    def add(kind: str, msg: str, **sig: Any) -> None:
        v = Violation('C16', kind, msg, dict(kind=kind, **sig), scenario='graph', labels=None)  # type: ignore[arg-type]
        viols.setdefault(v.key(), v)

    for cfg in configs():
        for fname, raw0 in flavours().items():
            if fname != 'plain' and tier == 'quick' and cfg.name not in ('smart-default', 'multi'):
                continue
            ops: list[tuple[str, Any]] = []
            for hid in ids:
                for ri, rec in enumerate(RECORDS):
                    ops.append((f'store:{hid[:8]}:{ri}', ('store', cfg, hid, rec)))
                ops.append((f'purge:{hid[:8]}', ('purge', cfg, hid, None)))
            ops.append(('touch', ('touch', cfg, None, 'v1')))
            ops.append(('untouch', ('touch', cfg, None, None)))
            ops.append(('diffbase', ('diffbase', cfg, None, {'spec': {'x': 1}})))
            ops.append(('diffbase-empty', ('diffbase', cfg, None, {})))     # an object without spec/labels is a legal object
            ops.append(('diffbase-odd', ('diffbase', cfg, None, {'spec': {'s': 'ü"\n', 'l': [], 'm': {}, 'z': 0, 'f': False}, 'metadata': {'labels': {}}})))
            ops.append(('foreign-store', ('store', foreign, 'h1', RECORDS[1])))
            ops.append(('foreign-purge', ('purge', foreign, 'h1', None)))
            ops.append(('foreign-diffbase', ('diffbase', foreign, None, {'spec': {'x': 9}})))
            ops.append(('user-annotate', ('user', None, None, None)))
            start = (json.dumps(raw0, sort_keys=True), json.dumps({}), json.dumps({}), 'null', 'null')
            frontier = [start]
            seen = {start}
            for d in range(depth):
                nxt = []
                for state in frontier:
                    raw = json.loads(state[0])
                    model: dict[str, Any] = json.loads(state[1])
                    fmodel: dict[str, Any] = json.loads(state[2])
                    lh = json.loads(state[3])
                    flh = json.loads(state[4])
                    for oname, (verb, who, hid, arg) in ops:
                        body = bodies.Body(copy.deepcopy(raw))
                        patch = patches.Patch(body=body)
                        m2, f2, lh2, flh2 = dict(model), dict(fmodel), lh, flh
                        if verb == 'store':
                            who.prog.store(key=hid, record=copy.deepcopy(arg), body=body, patch=patch)
                            (m2 if who is cfg else f2)[hid] = strip_none(arg)
                        elif verb == 'purge':
                            who.prog.purge(key=hid, body=body, patch=patch)
                            (m2 if who is cfg else f2).pop(hid, None)
                        elif verb == 'touch':
                            who.prog.touch(body=body, patch=patch, value=arg)
                        elif verb == 'diffbase':
                            who.base.store(body=body, patch=patch, essence=arg)
                            if who is cfg:
                                lh2 = arg
                            else:
                                flh2 = arg
                        elif verb == 'user':
                            patch.metadata.annotations['user/data'] = 'changed'
                        raw2 = server_apply(raw, patch)
                        stats.executions += 1
                        b2 = bodies.Body(raw2)
                        for i in ids:
                            got = cfg.prog.fetch(key=i, body=b2)
                            want = m2.get(i)
                            if (strip_none(dict(got)) if got is not None else None) != want:
                                add('graph-mismatch', f"[{cfg.name}/{fname}] after {oname}: fetch({i[:12]!r}) = {got}, the model says {want}",
                                    config=cfg.name, op=oname.split(':')[0], what='own')
                        got_f = foreign.prog.fetch(key='h1', body=b2)
                        if (strip_none(dict(got_f)) if got_f is not None else None) != f2.get('h1'):
                            add('graph-mismatch', f"[{cfg.name}/{fname}] after {oname}: the foreign operator's record reads {got_f}, the model says {f2.get('h1')}",
                                config=cfg.name, op=oname.split(':')[0], what='foreign')
                        if cfg.base.fetch(body=b2) != lh2:
                            add('graph-mismatch', f"[{cfg.name}/{fname}] after {oname}: last-handled reads {cfg.base.fetch(body=b2)}, the model says {lh2}",
                                config=cfg.name, op=oname.split(':')[0], what='diffbase')
                        if foreign.base.fetch(body=b2) != flh2:
                            add('graph-mismatch', f"[{cfg.name}/{fname}] after {oname}: the foreign last-handled reads {foreign.base.fetch(body=b2)}, model {flh2}",
                                config=cfg.name, op=oname.split(':')[0], what='foreign-diffbase')
                        # the essence the operator derives from the object: no record of its own in it, every bit of user data in it
                        try:
                            ess = cfg.prog.clear(essence=cfg.base.build(body=b2))
                            ess_anns = dict((ess.get('metadata') or {}).get('annotations') or {})
                        except Exception as e:
                            add('storage-raises', f"[{cfg.name}/{fname}] building the essence after {oname}: {type(e).__name__}: {e}", exc=type(e).__name__, idclass='essence')
                            ess_anns = None
                        if ess_anns is not None:
                            user_keys = {k for k in anns(raw2) if k in anns(raw0) or k == 'user/data'}
                            lost = sorted(k for k in user_keys if k not in ess_anns)
                            own = sorted(k for k in ess_anns if cfg.prefix and k.startswith(cfg.prefix + '/'))
                            if lost:
                                add('user-data-disturbed', f"[{cfg.name}/{fname}] after {oname}: the essence drops the user's annotations {lost}", config=cfg.name, what='essence')
                            if own:
                                add('own-records-in-essence', f"[{cfg.name}/{fname}] after {oname}: the essence contains the operator's own records {own}", config=cfg.name)
                        # ... and the user's status fields that handlers are narrowed to (restored into the essence as extra fields) stay in it,
                        # while nothing of the operator's own bookkeeping in the status stanza gets there with them
                        try:
                            ess_st = cfg.prog.clear(essence=cfg.base.build(body=b2, extra_fields=['status.phase', 'status.replicas'])).get('status')
                        except Exception as e:
                            add('storage-raises', f"[{cfg.name}/{fname}] building the essence (status fields) after {oname}: {type(e).__name__}: {e}", exc=type(e).__name__, idclass='essence')
                            ess_st = {'phase': 'Ready', 'replicas': 3}
                        if ess_st != {'phase': 'Ready', 'replicas': 3}:
                            add('user-data-disturbed' if not isinstance(ess_st, dict) or ess_st.get('phase') != 'Ready' or ess_st.get('replicas') != 3 else 'own-records-in-essence',
                                f"[{cfg.name}/{fname}] after {oname}: the status stanza of the essence (handlers on status.phase / status.replicas) is {ess_st}", config=cfg.name, what='essence-status')
                        if verb != 'user' and anns(raw2).get('plain') != 'v':
                            add('user-data-disturbed', f"[{cfg.name}/{fname}] after {oname}: user annotation changed", config=cfg.name)
                        st2 = (json.dumps(raw2, sort_keys=True), json.dumps(m2, sort_keys=True), json.dumps(f2, sort_keys=True),
                               json.dumps(lh2, sort_keys=True), json.dumps(flh2, sort_keys=True))
                        stats.transitions.add(hash((cfg.name, fname, state[0], oname)))
                        if st2 not in seen:
                            seen.add(st2)
                            nxt.append(st2)
                            stats.states.add(hash((cfg.name, fname, st2[0])))
                            stats.nontrivial.add(hash((cfg.name, fname, st2[0])))
                frontier = nxt
    return list(viols.values())


def sharing_check(tier: str, stats: Stats, prop: str = 'C16', only: tuple[str, ...] | None = None) -> list[Violation]:
    """ONE storage instance serves all objects of an operator, for the life of the process: what it writes for an object, under which names,
    and what it reads back must not depend on which objects it served before (a plain object, a ReplicaSet owned by a Deployment - whose
    records kopf keeps under names of their own). Differential oracle: every operation of every sequence of <= 3 (4) operations over both
    kinds of object, done by the long-lived instance, against the same single operation done by a FRESH instance of the same configuration."""
    viols: dict[str, Violation] = {}

    def add(kind: str, msg: str, **sig: Any) -> None:
        v = Violation(prop, kind, msg, dict(kind=kind, **sig), scenario='sharing', labels=None)  # type: ignore[arg-type]
        viols.setdefault(v.key(), v)

    depth = 3 if tier == 'quick' else 4
    hid = 'h1/sub'
    essence = {'spec': {'x': 1}}

    def perform(cfg: Cfg, what: str, raw: dict) -> tuple[Any, dict]:
        body = bodies.Body(copy.deepcopy(raw))
        patch = patches.Patch()
        out: Any = None
        if what == 'base-store':
            cfg.base.store(body=body, patch=patch, essence=copy.deepcopy(essence))
        elif what == 'base-fetch':
            out = cfg.base.fetch(body=body)
        elif what == 'base-build':
            out = cfg.base.build(body=body)
        elif what == 'prog-store':
            cfg.prog.store(key=ids_.HandlerId(hid), record=copy.deepcopy(RECORDS[0]), body=body, patch=patch)
        elif what == 'prog-fetch':
            out = cfg.prog.fetch(key=ids_.HandlerId(hid), body=body)
        elif what == 'prog-purge':
            cfg.prog.purge(key=ids_.HandlerId(hid), body=body, patch=patch)
        elif what == 'touch':
            cfg.prog.touch(body=body, patch=patch, value='t1')
        return json.loads(json.dumps(out, default=repr)), json.loads(json.dumps(dict(patch), default=repr))

    whats = [w for w in ['base-store', 'base-fetch', 'base-build', 'prog-store', 'prog-fetch', 'prog-purge', 'touch'] if only is None or w in only]
    names = [c.name for c in configs()]
    for ci, cname in enumerate(names):
        # the objects as they look once both storages have written to them (by fresh instances): there is something to fetch and to purge
        stocked: dict[str, dict] = {}
        flavs = flavours()
        # ... and an object on which ANOTHER Kopf-based operator (prefix ops.example.com) has left its marker and a record, while the plain
        # object carries an ordinary annotation of its user under that very prefix (no marker there: it is user data and essential)
        flavs['plain']['metadata']['annotations']['ops.example.com/owner'] = 'team-a'
        flavs['marked-by-another-operator'] = copy.deepcopy(flavs['plain'])
        flavs['marked-by-another-operator']['metadata']['annotations'].update({'ops.example.com/kopf-managed': 'yes', 'ops.example.com/h1': '{"retries": 1}'})
        flavs['marked-by-another-operator']['metadata']['uid'] = 'u2'
        for fname, raw0 in flavs.items():
            fresh = configs()[ci]
            raw = copy.deepcopy(raw0)
            for w in ('base-store', 'prog-store'):
                _, p = perform(fresh, w, raw)
                raw = server_apply(raw, patches.Patch(p))
            stocked[fname] = raw
        steps = [(f, w) for f in stocked for w in whats]
        for n in range(2, depth + 1):
            pool = steps if n <= 3 else [(f, w) for f, w in steps if w in ('base-store', 'base-fetch', 'base-build', 'prog-fetch')]   # depth 4: the reading / diff-base half
            for seq in itertools.product(pool, repeat=n):
                if len({f for f, _ in seq}) < 2:
                    continue      # the point is the alternation of kinds
                if tier == 'quick' and n == depth and seq[-1][1] not in ('base-store', 'base-fetch', 'prog-fetch', 'prog-store'):
                    continue
                shared = configs()[ci]
                for i, (fname, what) in enumerate(seq):
                    got = perform(shared, what, stocked[fname])
                    if i == 0:
                        continue
                    want = perform(configs()[ci], what, stocked[fname])
                    stats.executions += 1
                    stats.states.add(hash((cname, seq[:i + 1])))
                    stats.transitions.add(hash((cname, seq[:i], seq[i])))
                    if got != want:
                        add('served-objects-interfere', f"[{cname}] {what} on the {fname} object after serving {[f'{w}@{f}' for f, w in seq[:i]]}: the long-lived storage gives "
                                                        f"{got}, a fresh one of the same configuration {want}", config=cname, what=what.split('-')[0])
                        break
                    stats.nontrivial.add(hash((cname, what, fname, json.dumps(got, sort_keys=True))))
    return list(viols.values())


def all_violations(tier: str, stats: Stats) -> list[Violation]:
    return pool_check(tier, stats) + graph_check(tier, stats) + sharing_check(tier, stats)


def run(tier: str, seed: int) -> CheckResult:
    stats = Stats()
    viols = all_violations(tier, stats)
    stats.outcomes = set(stats.nontrivial)
    stats.bound_completed = 0
    return CheckResult(
        prop='C16', tier=tier, seed=seed, stats=stats, violations=viols, scenarios=2, bound_requested=0,
        extra={'id_pool': len(id_pool(tier)), 'graph_depth': 3 if tier == 'quick' else 4, 'configs': [c.name for c in configs()]},
        rule="(a) id pool: lengths {1,2,58,62,63,64,65,253,300}, shared 63-char prefixes, sub-handler paths, field suffixes, every character of "
             "[abzABZ019_./<>-] at first/last/cut positions, and ALL ids of length <= 3 (quick) / 4 over {a,A,0,_,.,/,<,-}; x 7 storage "
             "configurations x {plain object, ReplicaSet owned by a Deployment}: store/apply/fetch, purge, same-patch store+purge, name validity, "
             "name stability, user-data isolation, distinct names for long ids; (b) state graph to depth 3/4 over store/purge of 4 colliding "
             "ids x 2 records, touch, diff-base store, the same by a foreign-prefix operator, user annotation edits, against a dictionary "
             "model; non-trivial = the operation added annotation names / reached a new state",
        assumptions=["annotation name syntax per the Kubernetes documentation (prefix: DNS subdomain <= 253; name <= 63, alphanumeric at both ends)",
                     "freedom from collisions of the 32-bit name digest for arbitrary ids cannot be decided by a bounded search; only the pool is checked"])


def reverify(v: Violation) -> bool:
    st = Stats()
    return any(x.key() == v.key() for x in all_violations('quick', st)) or any(x.key() == v.key() for x in all_violations('thorough', st))


def replay(rec: dict[str, Any]) -> int:
    viols = [v for v in all_violations('thorough', Stats()) if json.loads(json.dumps(v.signature, default=repr)) == rec['signature']]
    for v in viols:
        print('VIOLATION', v.kind, v.message)
    return 1 if viols else 0
