"""
C05 Each event maps to exactly one cause; handler kinds are mutually exclusive.

Part 1 (inputs, exhaustive product): causes.detect_changing_cause over event type x deletion mark x
kopf finalizer x foreign finalizer x stored last-handled {none, empty, equal, different} x
first-sight flag, against the ordered decision list of the property; then the composition
cause -> ChangingRegistry.get_handlers for a registry with one handler of every kind.
Part 2 (histories, closed loop): every history to depth d over objects with and without a spec
(an object whose essence is empty is a legal object) with one handler of every kind and a raw-event
probe; every change-handler invocation is compared with the cause the reference assigns to the
event being processed (from the view the probe saw), and with the server-side state; resume handlers
only at the first sight of an object found by the initial listing.
"""
from __future__ import annotations

import itertools
from typing import Any

from kopf._cogs.structs import bodies, diffs, patches
from kopf._core.intents import causes, handlers as handlers_, registries

from kv.explorer import Env, Scenario, Stats, Violation, execute
from kv.harness.change import FINALIZER, ChangeScenario, any_progress_keys, essence_ref, last_handled
from kv.harness.op import resource_of
from kv.runner import CheckResult, run_groups
from kv.world import KEX

REASONS = ['gone', 'free', 'delete', 'create', 'resume', 'noop', 'update']


def cause_ref(etype: Any, marked: bool, kopf_fin: bool, old: Any, differs: bool, initial: bool) -> str:
    if etype == 'DELETED':
        return 'gone'
    if marked and not kopf_fin:
        return 'free'
    if marked:
        return 'delete'
    if old is None:
        return 'create'
    if not differs and initial:
        return 'resume'
    if not differs:
        return 'noop'
    return 'update'


def table_check() -> tuple[int, int, list[dict[str, Any]], list[Violation]]:
    """The full product on the pure function + the registry composition."""
    import logging
    viols: list[Violation] = []
    seen_rows = 0
    outcomes: set[tuple] = set()
    samples: list[dict[str, Any]] = []
    import asyncio
    from kopf._cogs.configs import configuration
    from kopf._core.actions import lifecycles
    from kopf._core.reactor import inventory, processing
    resource = resource_of(KEX)
    opregistry = registries.OperatorRegistry()
    registry = opregistry._changing
    invoked: list[str] = []
    settings = configuration.OperatorSettings()
    settings.posting.enabled = False
    loop = asyncio.new_event_loop()

    def mk(hid: str, reason: Any, initial: Any = None, deleted: Any = None, requires: Any = None) -> handlers_.ChangingHandler:
        async def fn(**_: Any) -> None:
            invoked.append(hid)
        fn.__name__ = hid
        return handlers_.ChangingHandler(
            fn=fn, id=hid, param=None, errors=None, timeout=None, retries=None, backoff=None,
            selector=__import__('kopf').EVERYTHING and __import__('kopf')._cogs.structs.references.Selector('kopfexamples'), labels=None, annotations=None, when=None, initial=initial, deleted=deleted,
            requires_finalizer=requires, reason=reason, field=None, value=None, old=None, new=None,
            field_needs_change=None)
    for h in [mk('create', causes.Reason.CREATE), mk('update', causes.Reason.UPDATE),
              mk('delete', causes.Reason.DELETE, requires=True), mk('resume', None, initial=True),
              mk('resume-deleted', None, initial=True, deleted=True)]:
        registry.append(h)

    essences = {'none': None, 'empty': {}, 'equal': {'spec': {'x': 1}}, 'different': {'spec': {'x': 0}}}
    for etype, marked, kfin, ffin, oldk, newk, initial in itertools.product(
            [None, 'ADDED', 'MODIFIED', 'DELETED'], [False, True], [False, True], [False, True],
            list(essences), ['empty', 'equal'], [False, True]):
        new = essences[newk]
        old = essences[oldk]
        fins = ([FINALIZER] if kfin else []) + (['other/fin'] if ffin else [])
        meta: dict[str, Any] = {'name': 'a', 'namespace': 'ns', 'uid': 'u'}
        if fins:
            meta['finalizers'] = fins
        if marked:
            meta['deletionTimestamp'] = '2030-01-01T00:00:00Z'
        raw: dict[str, Any] = {'apiVersion': 'kopf.dev/v1', 'kind': 'KopfExample', 'metadata': meta}
        raw.update(new or {})
        body = bodies.Body(raw)
        diff = diffs.diff(old, new)
        differs = (old != new)
        cause = causes.detect_changing_cause(
            finalizer=FINALIZER, raw_event={'type': etype, 'object': raw}, resource=resource,  # type: ignore[typeddict-item]
            indices={}, logger=logging.getLogger('kv'), patch=patches.Patch(), body=body, old=old, new=new,  # type: ignore[arg-type]
            diff=diff, memo=None, initial=initial)  # type: ignore[arg-type]
        seen_rows += 1
        want = cause_ref(etype, marked, kfin, old, differs, initial)
        got = str(cause.reason)
        row = dict(type=etype, marked=marked, kopf_finalizer=kfin, foreign_finalizer=ffin, stored=oldk, essence=newk, first_sight=initial)
        if len(samples) < 4:
            samples.append(dict(row, reason=got))
        if got != want:
            viols.append(Violation('C05', 'wrong-cause', f"{row}: classified as {got}, the decision list says {want}",
                                   dict(kind='wrong-cause', got=got, want=want, stored=oldk), scenario='table', labels=None))  # type: ignore[arg-type]
        # the real composition: what process_changing_cause() actually invokes for this cause
        invoked.clear()
        async def compose() -> None:
            await processing.process_changing_cause(
                lifecycle=lifecycles.all_at_once, registry=opregistry, settings=settings,
                memory=inventory.ResourceMemory(), cause=cause)
        loop.run_until_complete(compose())
        selected = sorted(invoked)
        outcomes.add((got, tuple(selected)))
        expect: set[str] = set()
        if want in ('create', 'update', 'delete'):
            expect.add(want)
        if want in ('create', 'update', 'delete', 'resume') and initial and want != 'create':
            # resume handlers are mixed into the first-sight cycle; not on deletion unless opted in
            expect.add('resume-deleted')
            if not marked:
                expect.add('resume')
        if set(selected) != expect:
            viols.append(Violation('C05', 'wrong-handlers', f"{row}: cause {got} selects {selected}, expected {sorted(expect)}",
                                   dict(kind='wrong-handlers', cause=want, selected=selected), scenario='table', labels=None))  # type: ignore[arg-type]
        # mutual exclusion, stated directly
        if marked and ({'create', 'update'} & set(selected)):
            viols.append(Violation('C05', 'change-on-deleting', f"{row}: {selected} selected for an object marked for deletion",
                                   dict(kind='change-on-deleting'), scenario='table', labels=None))  # type: ignore[arg-type]
        if 'delete' in selected and not (marked and kfin):
            viols.append(Violation('C05', 'delete-not-held', f"{row}: delete handler selected without mark+finalizer",
                                   dict(kind='delete-not-held'), scenario='table', labels=None))  # type: ignore[arg-type]
        if want in ('gone', 'free', 'noop') and selected:
            viols.append(Violation('C05', 'handler-on-nothing', f"{row}: {selected} selected for a {want} event",
                                   dict(kind='handler-on-nothing', cause=want), scenario='table', labels=None))  # type: ignore[arg-type]
    loop.close()
    return seen_rows, len(outcomes), samples, viols


class C05Scenario(ChangeScenario):
    name = 'c05'
    prop = 'C05'

    def check(self, env: Env) -> list[Violation]:
        out: list[Violation] = []
        if env.end_reason in ('stall', 'livelock', 'step-budget', 'deadlock'):
            return [self.viol(env, 'no-progress', f'execution ended with {env.end_reason}', end=env.end_reason)]
        current: dict[tuple[str, str], dict] = {}     # (op, uid) -> the event being processed (from the probe)
        sights: dict[tuple[str, str], int] = {}       # (op, uid) -> how many events of the object this process has processed
        first_type: dict[tuple[str, str], Any] = {}
        first_cycle_over: set[tuple[str, str]] = set()
        clean = not self.carveouts(env) and not env.time_while_pending
        # a view older than what the operator's own PATCH returned (a foreign edit that slipped in before it) says nothing about
        # the state of the handling: the progress records are in the newer version
        post_rv = {r.rid: int(r.post['metadata']['resourceVersion']) for r in env.world.requests
                   if r.method == 'patch' and r.status == 200 and isinstance(r.post, dict)}
        own_rv: dict[tuple[str, str], int] = {}
        stale_now: dict[tuple[str, str], bool] = {}
        for t, k, p in env.obs:
            if k == 'srv' and p.get('rid') in post_rv and p['verb'] in ('serve', 'respond'):
                oname = p['path'].rstrip('/').split('/')[-1 if not p['path'].endswith('/status') else -2]
                own_rv[(p['op'], oname)] = max(own_rv.get((p['op'], oname), 0), post_rv[p['rid']])
                continue
            if k == 'call' and p['id'] == 'ev':
                wire = p.get('evraw')
                if wire and (wire.get('metadata') or {}).get('resourceVersion') != (p['raw'].get('metadata') or {}).get('resourceVersion'):
                    # "classified from the object's state alone": the state an event is judged by is the state the event brought
                    out.append(self.viol(env, 'event-judged-by-another-state', f"t={t}: the event of version {(wire.get('metadata') or {}).get('resourceVersion')} "
                                                                               f"(marked for deletion: {'deletionTimestamp' in (wire.get('metadata') or {})}) is handled with the body of version "
                                                                               f"{(p['raw'].get('metadata') or {}).get('resourceVersion')}", clause='one-cause'))
                    p = dict(p, raw=wire)      # the reference classifies the event that arrived
                current[(p['op'], p['uid'])] = p
                sights[(p['op'], p['uid'])] = sights.get((p['op'], p['uid']), 0) + 1
                first_type.setdefault((p['op'], p['uid']), p.get('etype'))
                stale_now[(p['op'], p['uid'])] = int(p['rv']) < own_rv.get((p['op'], p['name']), 0)
                if sights[(p['op'], p['uid'])] > 1 and not any_progress_keys(p['raw']) and not stale_now[(p['op'], p['uid'])]:
                    first_cycle_over.add((p['op'], p['uid']))     # the cycle that began at first sight has been closed (or had nothing to do)
                continue
            if k != 'call' or p.get('reason') not in ('create', 'update', 'delete', 'resume'):
                continue
            hid, reason = p['id'], p['reason']
            raw = p['raw']
            meta = raw.get('metadata', {})
            marked = 'deletionTimestamp' in meta
            held = FINALIZER in (meta.get('finalizers') or [])
            kind = {h['id']: h for h in self.params['handlers']}[hid]
            if kind['on'] in ('create', 'update') and marked:
                out.append(self.viol(env, 'change-on-deleting', f"t={t}: {kind['on']} handler {hid} invoked on an object marked for deletion", clause='exclusive'))
            if kind['on'] == 'resume' and marked and not kind.get('deleted'):
                out.append(self.viol(env, 'resume-on-deleting', f"t={t}: resume handler {hid} (not opted in) invoked on an object marked for deletion", clause='exclusive'))
            if kind['on'] == 'delete' and not (marked and held):
                out.append(self.viol(env, 'delete-not-held', f"t={t}: delete handler {hid} invoked on an object that is not marked+held (marked={marked}, held={held})", clause='exclusive'))
            # the cause the reference assigns to the event whose processing invoked this handler
            ev = current.get((p['op'], p['uid']))
            if ev is None:
                out.append(self.viol(env, 'handler-without-event', f"t={t}: {hid} invoked although no event of the object was seen by the raw-event probe", clause='one-cause'))
                continue
            eraw = ev['raw']
            emeta = eraw.get('metadata', {})
            # "resume = first sight after start": resume handlers belong to the first cycle of an object that the
            # process found in its initial listing. A later event that carries no unfinished progress cannot be that
            # cycle any more (the earlier one was completed, or there was nothing to do).
            if kind['on'] == 'resume':
                key = (p['op'], p['uid'])
                if first_type.get(key) is not None:
                    out.append(self.viol(env, 'resume-not-first-sight', f"t={t}: resume handler {hid} invoked for an object this process first saw "
                                                                        f"through the watch ({first_type[key]}), not in its initial listing", clause='first-sight', how='watch'))
                elif key in first_cycle_over and clean:
                    out.append(self.viol(env, 'resume-not-first-sight', f"t={t}: resume handler {hid} invoked (reason={reason}) on event #{sights[key]} of the object in this "
                                                                        f"process, after the handling that began at its first sight was over", clause='first-sight', how='later-cycle'))
                elif sights.get(key, 0) > 1 and not any_progress_keys(eraw) and clean and not stale_now.get(key):
                    out.append(self.viol(env, 'resume-not-first-sight', f"t={t}: resume handler {hid} invoked (reason={reason}) on event #{sights[key]} of the object "
                                                                        f"in this process although no handling was in progress: not the first sight", clause='first-sight', how='later-event'))
            old = last_handled(eraw)
            differs = old is not None and old != essence_ref(eraw)
            emarked = 'deletionTimestamp' in emeta
            eheld = FINALIZER in (emeta.get('finalizers') or [])
            if ev.get('etype') == 'DELETED':
                allowed = set()
            elif emarked and not eheld:
                allowed = set()
            elif emarked:
                allowed = {'delete'}
            elif old is None:
                allowed = {'create'}
            elif not differs:
                allowed = {'resume'}     # or no-op, in which case nothing may be invoked; first-sight is C14's subject
            else:
                allowed = {'update'}
            if reason not in allowed:
                out.append(self.viol(
                    env, 'wrong-cause',
                    f"t={t}: {hid} invoked with reason={reason} for an event the decision list classifies as {sorted(allowed) or 'gone/released'} "
                    f"(type={ev.get('etype')}, marked={emarked}, held={eheld}, stored last-handled={old}, essence={essence_ref(eraw)})",
                    clause='one-cause', got=reason, want=sorted(allowed)))
            if kind['on'] in ('create', 'update', 'delete') and kind['on'] != reason:
                out.append(self.viol(env, 'kind-mismatch', f"t={t}: {kind['on']} handler {hid} invoked for reason {reason}", clause='exclusive'))
            if kind['on'] == 'resume' and reason == 'create':
                out.append(self.viol(env, 'kind-mismatch', f"t={t}: resume handler {hid} invoked in a creation cycle (creation never mixes with resuming)", clause='exclusive'))
        # no event that differs essentially from the last-handled state may be taken for nothing: once the world is quiet, every
        # live object has been handled in its final state
        t_last = max([t for t, k, p in env.obs if k in ('user', 'kill', 'start')] + [0.0])
        if clean and not env.deviations and not env.owes() and env.end_reason == 'horizon' and env.now >= t_last + 15 and env.memo.get('pipeline') is not None:
            for (ns, name), obj in env.world.objects[self.kind.key].items():
                if 'deletionTimestamp' in obj['metadata']:
                    continue
                if last_handled(obj) != essence_ref(obj):
                    out.append(self.viol(env, 'difference-taken-for-nothing', f"object {name}: {env.now - t_last:.0f}s after the last edit its last-handled state is "
                                                                              f"{last_handled(obj)} while its essence is {essence_ref(obj)}: the change was classified as no change",
                                         clause='one-cause', what='update-as-noop'))
        return out


def histories(depth: int, bare: bool) -> list[list[tuple[str, ...]]]:
    alphabet: list[tuple[str, ...]] = [('label', 'a', 'l', 'v'), ('unlabel', 'a', 'l'), ('status', 'a', 7), ('delete', 'a'), ('restart',),
                                       ('addfin', 'a', 'other/fin'), ('delfin', 'a', 'other/fin')]
    if not bare:
        alphabet.insert(0, ('spec', 'a', 2))
        alphabet.insert(1, ('append', 'a'))
        alphabet.insert(2, ('truncate', 'a'))
    out = []
    for d in range(0, depth + 1):
        for combo in itertools.product(alphabet, repeat=d):
            deleted = False
            ok = True
            for i, a in enumerate(combo):
                if a[0] == 'delete':
                    if deleted:
                        ok = False
                    deleted = True
                if i and combo[i - 1] == a and a[0] in ('status', 'restart', 'label', 'unlabel', 'addfin', 'delfin'):
                    ok = False
            if ok:
                out.append(list(combo))
    return out


def build(history: list[tuple[str, ...]], bare: bool, spacing: float, preexisting: bool = False, **kw: Any) -> C05Scenario:
    handlers = [dict(id='ev', on='event', script=['ok']),
                dict(id='c1', on='create', script=['ok']), dict(id='u1', on='update', script=['temp', 'ok']),
                dict(id='d1', on='delete', script=['temp', 'ok']), dict(id='r1', on='resume', script=['ok']),
                dict(id='r2', on='resume', script=['ok'], deleted=True), dict(id='r3', on='resume', script=['ok'], deleted=False)]
    if kw.pop('filtered_resume_only', False):
        # the only resume handler is filtered by a label the object does not carry when the process first sees it
        handlers = [h for h in handlers if h['on'] != 'resume'] + [dict(id='r4', on='resume', script=['ok'], labels={'l': 'v'})]
        kw['filtered_resume_only'] = True
    t = 1.0
    user: list[tuple] = [(t, 'createbare' if bare else 'create', 'a')] if not preexisting else []
    if preexisting:     # created while no operator was running: found by the initial listing, never handled before
        kw['pre'] = [('a', None if bare else {'x': 1})]
    for a in history:
        t += spacing
        user.append((t, *a))
    return C05Scenario(handlers=handlers, user=user, horizon=t + 20.0, history=[list(a) for a in history], bare=bare,
                       spacing=spacing, preexisting=preexisting, settings={'persistence__consistency_timeout': 5.0}, **kw)


def run(tier: str, seed: int) -> CheckResult:
    rows, distinct, samples, tviols = table_check()
    depth = 3 if tier == 'quick' else 4
    hist = [build(h, bare, sp, pre, delays=False, early_user=False, time_dev=False)
            for bare in (True, False) for pre in (False, True) for h in histories(depth if not pre else depth - 1, bare)
            for sp in ((6.0,) if tier == 'quick' else (6.0, 0.0))]
    hist += [build(h, bare, 6.0, False, filtered_resume_only=True, delays=False, early_user=False, time_dev=False)
             for bare in (True, False) for h in histories(depth, bare) if ('restart',) in h and ('label', 'a', 'l', 'v') in h]
    # an object first seen through the watch although it was handled before, then re-listings / reconnects / edits
    for tail in ([('relist',)], [('reconnect',)], [('relist',), ('label', 'a', 'l', 'v')], [('status', 'a', 7), ('relist',), ('status', 'a', 8)],
                 [('relist',), ('relist',)], [('label', 'a', 'l', 'v'), ('relist',)]):
        sc = build(tail, False, 6.0, False, delays=False, early_user=False, time_dev=False)
        params = dict(sc.params)
        params['user'] = [(1.0, 'createhandled', 'a')] + [u for u in params['user'] if u[1] != 'create']
        hist.append(C05Scenario(**params))
    # the operator also serves another kind, whose handlers are narrowed to fields in the status / metadata: what is essential for
    # THAT kind (its handlers' fields) says nothing about this one - a status-only edit here stays a no-op
    other = [dict(id='w1', on='update', field='status'), dict(id='w2', on='field', field='metadata.finalizers')]
    for h in histories(2, False):
        if any(a[0] in ('status', 'addfin', 'delfin') for a in h):
            hist.append(build(h, False, 6.0, False, other_kind_handlers=other, delays=False, early_user=False, time_dev=False))
    # the same classification for a ReplicaSet owned by a Deployment (kopf keeps its last-handled state under another annotation name there)
    hist += [build(h, False, 6.0, pre, rs=True, delays=False, early_user=False, time_dev=False) for pre in (False, True) for h in histories(2, False)]
    # a kind with a daemon (the framework keeps a long-lived body for it) and a raw-event handler whose patch changes nothing from the second
    # event on: the version such a PATCH returns never comes back through the watch, the operator waits for it for the whole consistency
    # timeout - and the events that arrive meanwhile (a deletion, edits) are newer than what it waits for
    for tail in ([('delete', 'a')], [('spec', 'a', 3)], [('label', 'a', 'l', 'v'), ('delete', 'a')], [('status', 'a', 7), ('delete', 'a')], [('spec', 'a', 3), ('spec', 'a', 2)]):
        for gap in (1.0, 2.0, 4.5, 6.0):
            sc = build([], False, 6.0, False, delays=False, early_user=False, time_dev=False)
            params = dict(sc.params)
            params['handlers'] = [dict(h, script=['ok+seen']) if h['id'] == 'ev' else (dict(h, script=['ok']) if h['id'] in ('u1', 'd1') else h) for h in params['handlers']] + \
                                 [dict(id='dm', on='daemon', reaction='obeys')]
            params['user'] = [(1.0, 'create', 'a'), (7.0, 'spec', 'a', 2)] + [(7.0 + gap * (i + 1), *a) for i, a in enumerate(tail)]
            params['horizon'] = 7.0 + gap * len(tail) + 20.0
            hist.append(C05Scenario(**params))
    # somebody edits the spec WHILE a handler runs: the version the closing PATCH returns carries last-handled = the handled state and
    # an essence that is newer - its event is an update like any other (the state alone decides, not what the process remembers of its writes)
    for who, tail in itertools.product(('c1', 'u1'), ([], [('status', 'a', 7)], [('label', 'a', 'l', 'v')])):
        sc = build([], False, 6.0, False, delays=False, early_user=False, time_dev=False)
        params = dict(sc.params)
        params['handlers'] = [dict(h, script=['ok+spec5']) if h['id'] == who else (dict(h, script=['ok']) if h['id'] in ('u1', 'd1') else h) for h in params['handlers']]
        params['user'] = [(1.0, 'create', 'a')] + ([(7.0, 'spec', 'a', 2)] if who == 'u1' else []) + [(14.0 + 6 * i, *a) for i, a in enumerate(tail)]
        params['horizon'] = 14.0 + 6 * len(tail) + 25.0
        hist.append(C05Scenario(**params))
    timing = [build(h, bare, 2.0, pre, kills=True) for bare in (True, False) for pre in (False, True) for h in histories(1 if tier == 'quick' else 2, bare)]
    if tier == 'quick':
        groups = [('histories', hist, 0, 60.0), ('timing+kills', timing, 1, 40.0)]
    else:
        groups = [('histories', hist, 0, 600.0), ('timing+kills', timing, 2, 600.0)]
    stats, viols, info, nscen = run_groups(groups, seed=seed)
    stats.samples = ([{'table_rows': samples}] + stats.samples)[:6]
    return CheckResult(
        prop='C05', tier=tier, seed=seed, stats=stats, violations=tviols + viols, scenarios=nscen,
        bound_requested=max(g[2] for g in groups),
        extra={'groups': info, 'table_rows': rows, 'table_distinct_outcomes': distinct, 'history_depth': depth},
        rule="part 1: full product event type {None,ADDED,MODIFIED,DELETED} x deletion mark x kopf finalizer x foreign finalizer x "
             "stored last-handled {none, empty, equal, different} x essence {empty, non-empty} x first-sight (1024 rows) on "
             "detect_changing_cause + ChangingRegistry.get_handlers; part 2: every history to depth 3/4 over {spec, label, unlabel, "
             "status, delete, restart, foreign finalizer add/remove} for an object with a spec and for a bare object (empty "
             "essence), created while the operator runs or found unhandled by its initial listing, one handler of every kind + a raw-event probe, in the closed loop; timing group adds kills and deviations; "
             "non-trivial = outcome differs from the scenario's default schedule",
        assumptions=["first sight: a resume handler may only run for an object the process found in its initial listing, and not on a later event that carries "
                     "no unfinished progress (judged on executions without kills, faults or API latency); 'exactly once' is C14's subject",
                     "essence reference: body minus apiVersion/kind/status and all metadata except labels and non-kopf annotations"])


def scenario_from(name: str, params: dict[str, Any]) -> Scenario:
    return C05Scenario(**params)


def reverify(v: Violation) -> bool:
    if v.scenario == 'table':
        return any(x.key() == v.key() for x in table_check()[3])
    from kv.runner import default_reverify
    return default_reverify(v)


def replay(rec: dict[str, Any]) -> int:
    if rec['scenario'] == 'table':
        viols = table_check()[3]
        for v in viols:
            print('VIOLATION', v.kind, v.message)
        return 1 if viols else 0
    sc = scenario_from(rec['scenario'], rec['params'])
    env = execute(sc, rec['labels'])
    viols = getattr(env, 'violations', [])
    for t, k, p in env.obs:
        if k in ('call', 'write', 'user', 'kill', 'start', 'stop'):
            brief = {kk: vv for kk, vv in p.items() if kk in ('id', 'retry', 'reason', 'rv', 'outcome', 'actor', 'verb', 'name', 'op', 'etype')}
            print(f'{t:8.3f} {k:8s} {brief}')
    for v in viols:
        print('VIOLATION', v.kind, v.message)
    return 1 if viols else 0
