"""
C18 Admission responses faithfully reflect handler outcomes and requested mutations.

Subject: admission.serve_admission_request (real registry, real Patch.as_json_patch, real
WebhooksRegistry.iter_handlers), called directly with hand-made insights.
(A) selection/verdict product: handler sets of <= 3 webhooks (validating/mutating, operations,
    subresource, label filter, outcome incl. warnings) x requests (operation x subresource x webhook-id
    hint x type hint x labelled/unlabelled object).
(B) mutation product: patch programs of <= 2 (quick) / 3 statements over {set, overwrite, delete present,
    delete absent, nested set under an absent / scalar / mapping parent, scalar<->mapping<->list type
    changes, keys with '/', '~', '.', unicode} plus transformation functions x reviewed objects.
Oracle: allowed <=> no selected handler raised; message/code of the most specific error; warnings in
order; exactly the matching handlers ran; applying the returned JSON patch (independent RFC 6902) to the
reviewed object == transformations(independent RFC 7386 merge(object, requested fields)), up to empty mappings.
"""
from __future__ import annotations

import asyncio
import base64
import copy
import itertools
import json
from typing import Any

import kopf
from kopf._cogs.configs import configuration
from kopf._cogs.structs import ephemera, references
from kopf._core.engines import admission
from kopf._core.reactor import inventory

from kv.explorer import Stats, Violation
from kv.harness.op import resource_of
from kv.ref import rfc6902, rfc7386
from kv.runner import CheckResult
from kv.world import KEX

OUTCOMES = ['ok', 'ok+warn', 'admission403', 'admission', 'permanent', 'temporary', 'arbitrary']
RANK = {'admission403': 0, 'admission': 0, 'permanent': 1, 'temporary': 2, 'arbitrary': 9}


def raise_for(outcome: str, hid: str) -> None:
    if outcome == 'admission403':
        raise kopf.AdmissionError(f'denied by {hid}', code=403)
    if outcome == 'admission':
        raise kopf.AdmissionError(f'denied by {hid}')
    if outcome == 'permanent':
        raise kopf.PermanentError(f'permanent in {hid}')
    if outcome == 'temporary':
        raise kopf.TemporaryError(f'temporary in {hid}', delay=1)
    if outcome == 'arbitrary':
        raise ValueError(f'arbitrary in {hid}')


def make_request(op: str, sub: str | None, obj: dict | None, old: dict | None = None) -> dict:
    return {'apiVersion': 'admission.k8s.io/v1', 'kind': 'AdmissionReview',
            'request': {'uid': 'req-1', 'kind': {'group': 'kopf.dev', 'version': 'v1', 'kind': 'KopfExample'},
                        'resource': {'group': 'kopf.dev', 'version': 'v1', 'resource': 'kopfexamples'},
                        'subResource': sub, 'name': 'a', 'namespace': 'ns', 'operation': op,
                        'userInfo': {'username': 'u', 'uid': 'x', 'groups': []}, 'dryRun': False,
                        'object': obj, 'oldObject': old}}


class Ctx:
    def __init__(self) -> None:
        self.settings = configuration.OperatorSettings()
        self.settings.posting.enabled = False
        self.insights = references.Insights()
        self.insights.webhook_resources.add(resource_of(KEX))
        self.loop = asyncio.new_event_loop()

    def serve(self, registry: kopf.OperatorRegistry, request: dict, **kw: Any) -> dict:
        async def go() -> Any:
            return await admission.serve_admission_request(
                request, settings=self.settings, memories=inventory.ResourceMemories(),  # type: ignore[arg-type]
                memobase=ephemera.AnyMemo(ephemera.Memo()), registry=registry, insights=self.insights,
                indices=ephemera.Indices() if callable(ephemera.Indices) and False else {}, **kw)  # type: ignore[arg-type]
        return self.loop.run_until_complete(go())


def base_object(labelled: bool) -> dict:
    meta: dict[str, Any] = {'name': 'a', 'namespace': 'ns', 'uid': 'u1'}
    if labelled:
        meta['labels'] = {'on': 'yes'}
    return {'apiVersion': 'kopf.dev/v1', 'kind': 'KopfExample', 'metadata': meta, 'spec': {'x': 1}}


def selection_product(tier: str, stats: Stats) -> list[Violation]:
    viols: dict[str, Violation] = {}
    ctx = Ctx()

    def add(kind: str, msg: str, **sig: Any) -> None:
        v = Violation('C18', kind, msg, dict(kind=kind, **sig), scenario='selection', labels=None)  # type: ignore[arg-type]
        viols.setdefault(v.key(), v)

    decl_space = []
    for typ, ops, sub, filt in itertools.product(['validating', 'mutating'], [None, ['CREATE'], ['DELETE'], ['CREATE', 'DELETE']],
                                                 [None, '*', 'status'], [False, True]):
        decl_space.append(dict(type=typ, operations=ops, subresource=sub, filtered=filt))
        if ops == ['DELETE'] and sub is None:
            # the same opt-in spelled otherwise: any collection of operations, or the deprecated singular kwarg
            for form in ('tuple', 'set', 'frozenset', 'kwarg'):
                decl_space.append(dict(type=typ, operations=ops, subresource=sub, filtered=filt, ops_form=form))
    outcome_sets = list(itertools.product(OUTCOMES, repeat=2)) if tier == 'quick' else list(itertools.product(OUTCOMES, repeat=3))
    requests = list(itertools.product(['CREATE', 'UPDATE', 'DELETE', 'CONNECT'], [None, 'status', 'scale'], [False, True]))
    # 1. every single declaration x every request x hint: who runs?
    for decl in decl_space:
        for outcome in ('ok', 'permanent'):
            ran: list[str] = []
            reg = kopf.OperatorRegistry()
            _declare(reg, 'h1', decl, outcome, ran)
            for (op, sub, labelled), hint, rhint in itertools.product(requests, [None, 'h1', 'zzz'], [None, 'validating', 'mutating']):
                obj = base_object(labelled)
                req = make_request(op, sub, obj if op != 'DELETE' else None, old=obj if op in ('UPDATE', 'DELETE') else None)
                ran.clear()
                kw: dict[str, Any] = {}
                if hint:
                    kw['webhook'] = hint
                if rhint:
                    kw['reason'] = kopf._core.intents.causes.WebhookType(rhint)  # type: ignore[attr-defined]
                try:
                    rsp = ctx.serve(reg, req, **kw)
                except Exception as e:
                    add('serve-raises', f"decl={decl} request={op}/{sub}: {type(e).__name__}: {e}", exc=type(e).__name__, part='selection')
                    continue
                stats.executions += 1
                want = _should_run(decl, op, sub, labelled, hint, rhint)
                stats.transitions.add(hash((repr(decl), op, sub, labelled, hint, rhint)))
                if want:
                    stats.nontrivial.add(hash((repr(decl), op, sub, labelled, hint, rhint)))
                if bool(ran) != want:
                    add('wrong-selection', f"handler {decl} {'ran' if ran else 'did not run'} for {op} subresource={sub} labelled={labelled} "
                                           f"hint={hint}/{rhint}; expected {'to run' if want else 'not to run'}",
                        type=decl['type'], direction='spurious' if ran else 'missed',
                        why='mutating-on-delete' if (decl['type'] == 'mutating' and op == 'DELETE') else 'other')
                allowed = rsp['response']['allowed']
                if allowed != (not (want and outcome != 'ok')):
                    add('wrong-verdict', f"handler {decl} outcome={outcome} ran={bool(ran)}: allowed={allowed}", outcome=outcome)
    # 2. handler sets: verdict, most specific error, warnings order
    for outs in outcome_sets:
        ran = []
        reg = kopf.OperatorRegistry()
        for i, o in enumerate(outs):
            _declare(reg, f'h{i}', dict(type='validating' if i % 2 == 0 else 'mutating', operations=None, subresource=None, filtered=False), o, ran)
        req = make_request('CREATE', None, base_object(False))
        try:
            rsp = ctx.serve(reg, req)['response']
        except Exception as e:
            add('serve-raises', f"outcomes={outs}: {type(e).__name__}: {e}", exc=type(e).__name__, part='verdict')
            continue
        stats.executions += 1
        stats.states.add(hash(outs))
        failed = [(RANK[o], i, o) for i, o in enumerate(outs) if o in RANK]
        if failed:
            stats.nontrivial.add(hash(outs))
        if rsp['allowed'] != (not failed):
            add('wrong-verdict', f"outcomes {outs}: allowed={rsp['allowed']}", outcome='set')
        if sorted(ran) != [f'h{i}' for i in range(len(outs))]:
            add('wrong-selection', f"outcomes {outs}: ran {ran}", type='set', direction='missed', why='set')
        if failed:
            best_rank = min(r for r, _, _ in failed)
            best = [(i, o) for r, i, o in failed if r == best_rank]
            status = rsp.get('status') or {}
            msgs = {_message(o, f'h{i}') for i, o in best}
            codes = {403 if o == 'admission403' else 500 for i, o in best}
            if status.get('message') not in msgs or status.get('code') not in codes:
                add('wrong-status', f"outcomes {outs}: status {status}, expected one of {sorted(msgs)} with code in {sorted(codes)}",
                    best=sorted({o for _, o in best}))
        elif rsp.get('status'):
            add('wrong-status', f"outcomes {outs}: allowed but carries status {rsp.get('status')}", best=[])
        want_w = [f'warning from h{i}' for i, o in enumerate(outs) if o == 'ok+warn']
        if (rsp.get('warnings') or []) != want_w:
            add('wrong-warnings', f"outcomes {outs}: warnings {rsp.get('warnings')}, expected {want_w}")
    # 3. field criteria: they are about the REVIEWED object (the new one; the old one only when there is no new one, i.e. on DELETE)
    MISSING = object()
    crits = {'value=1': dict(field='spec.x', value=1), 'value=ABSENT': dict(field='spec.x', value=kopf.ABSENT), 'value=PRESENT': dict(field='spec.x', value=kopf.PRESENT),
             'field only': dict(field='spec.x'), 'callable(v == 1)': dict(field='spec.x', value=lambda value, **_: value == 1)}
    matchers = {'value=1': lambda v: v == 1 and v is not MISSING, 'value=ABSENT': lambda v: v is MISSING, 'value=PRESENT': lambda v: v is not MISSING,
                'field only': lambda v: v is not MISSING, 'callable(v == 1)': lambda v: v is not MISSING and v == 1}
    states = [MISSING, 1, 2]

    def with_x(v: Any) -> dict:
        o = base_object(False)
        if v is MISSING:
            o['spec'] = {'y': 0}
        else:
            o['spec'] = {'x': v, 'y': 0}
        return o
    for typ, (cname, crit) in itertools.product(['validating', 'mutating'], crits.items()):
        ran = []
        reg = kopf.OperatorRegistry()

        async def fh(**kw: Any) -> None:
            ran.append('fh')
        fh.__name__ = fh.__qualname__ = 'fh'
        deco = kopf.on.validate if typ == 'validating' else kopf.on.mutate
        extra = {'operations': ['DELETE']} if typ == 'mutating' else {}
        reg_all = kopf.OperatorRegistry()
        deco('kopfexamples', id='fh', registry=reg, **crit)(fh)
        deco('kopfexamples', id='fh', registry=reg_all, **crit, **extra)(fh)
        cases = [('CREATE', new, MISSING) for new in states] + [('UPDATE', new, oldv) for new in states for oldv in states] + \
                [('DELETE', MISSING, oldv) for oldv in states]
        for op, new, oldv in cases:
            if op == 'DELETE':
                req = make_request(op, None, None, old=with_x(oldv))
                reviewed = oldv
            else:
                req = make_request(op, None, with_x(new), old=with_x(oldv) if op == 'UPDATE' else None)
                reviewed = new
            ran.clear()
            try:
                ctx.serve(reg_all if op == 'DELETE' else reg, req)
            except Exception as e:
                add('serve-raises', f"field criterion {cname} request={op}: {type(e).__name__}: {e}", exc=type(e).__name__, part='field-criteria')
                continue
            stats.executions += 1
            want = bool(matchers[cname](reviewed))
            key = (typ, cname, op, repr(new), repr(oldv))
            stats.transitions.add(hash(key))
            if want:
                stats.nontrivial.add(hash(key))
            if bool(ran) != want:
                show = lambda v: 'absent' if v is MISSING else repr(v)
                add('wrong-selection', f"{typ} handler with {cname} on spec.x {'ran' if ran else 'did not run'} for {op} with object spec.x={show(new)}, "
                                       f"oldObject spec.x={show(oldv)}; the reviewed object {'matches' if want else 'does not match'}",
                    type=typ, direction='spurious' if ran else 'missed', why='field-criterion')
    stats.samples.append({'selection_declarations': len(decl_space), 'requests': len(requests), 'outcome_sets': len(outcome_sets)})
    ctx.loop.close()
    return list(viols.values())


def _message(outcome: str, hid: str) -> str:
    return {'admission403': f'denied by {hid}', 'admission': f'denied by {hid}', 'permanent': f'permanent in {hid}',
            'temporary': f'temporary in {hid}', 'arbitrary': f'arbitrary in {hid}'}[outcome]


def _should_run(decl: dict, op: str, sub: str | None, labelled: bool, hint: str | None, rhint: str | None) -> bool:
    if hint is not None and hint != 'h1':
        return False
    if rhint is not None and rhint != decl['type']:
        return False
    if decl['subresource'] != '*' and decl['subresource'] != sub:
        return False
    if decl['filtered'] and not labelled:
        return False
    if decl['type'] == 'mutating' and op == 'DELETE' and set(decl['operations'] or []) != {'DELETE'}:
        return False
    # NB: the `operations` of a handler are enforced by Kubernetes through the webhook rules, not by kopf.
    return True


def _declare(reg: kopf.OperatorRegistry, hid: str, decl: dict, outcome: str, ran: list[str], program: Any = None) -> None:
    async def fn(**kw: Any) -> None:
        ran.append(hid)
        if outcome == 'ok+warn':
            kw['warnings'].append(f'warning from {hid}')
        if program is not None:
            program(kw['patch'])
        raise_for(outcome, hid)
    fn.__name__ = fn.__qualname__ = hid
    deco = kopf.on.validate if decl['type'] == 'validating' else kopf.on.mutate
    kw: dict[str, Any] = {}
    if decl.get('operations'):
        form = decl.get('ops_form', 'list')
        if form == 'kwarg':
            kw['operation'] = decl['operations'][0]
        else:
            kw['operations'] = {'list': list, 'tuple': tuple, 'set': set, 'frozenset': frozenset}[form](decl['operations'])
    if decl.get('subresource'):
        kw['subresource'] = decl['subresource']
    if decl.get('filtered'):
        kw['labels'] = {'on': 'yes'}
    import warnings
    with warnings.catch_warnings():
        warnings.simplefilter('ignore')
        deco('kopfexamples', id=hid, registry=reg, **kw)(fn)


# ---- (B) mutations -------------------------------------------------------------------------------

def _bump(b: dict) -> None:
    spec = b.setdefault('spec', {})
    spec['n'] = spec.get('n', 0) + 1


def statements() -> list[tuple[str, Any]]:
    S: list[tuple[str, Any]] = []

    def st(name: str, fn: Any) -> None:
        S.append((name, fn))
    st('set spec.new', lambda p: p.spec.__setitem__('new', 'v'))
    st('overwrite spec.x', lambda p: p.spec.__setitem__('x', 2))
    st('delete present spec.x', lambda p: p.spec.__setitem__('x', None))
    st('delete absent spec.nope', lambda p: p.spec.__setitem__('nope', None))
    st('nested under absent', lambda p: p.setdefault('spec', {}).setdefault('deep', {}).__setitem__('k', 'v'))
    st('nested under mapping', lambda p: p.setdefault('spec', {}).setdefault('m', {}).__setitem__('k2', 'v'))
    st('nested under scalar', lambda p: p.setdefault('spec', {}).setdefault('x', {}).__setitem__('k', 'v'))
    st('delete under scalar', lambda p: p.setdefault('spec', {}).setdefault('x', {}).__setitem__('k', None))
    st('mapping -> scalar', lambda p: p.spec.__setitem__('m', 'flat'))
    st('scalar -> list', lambda p: p.spec.__setitem__('x', [1, 2]))
    st('list -> mapping', lambda p: p.setdefault('spec', {}).setdefault('l', {}).__setitem__('k', 'v'))
    st('mapping -> empty mapping', lambda p: p.spec.__setitem__('m', {}))
    st('key with slash', lambda p: p.metadata.annotations.__setitem__('example.com/key', 'v'))
    st('key with tilde', lambda p: p.spec.__setitem__('a~b', 'v'))
    st('key with dot', lambda p: p.spec.__setitem__('a.b', 'v'))
    st('unicode', lambda p: p.spec.__setitem__('ключ', 'значение ✓'))
    st('label set', lambda p: p.metadata.labels.__setitem__('l', 'v'))
    st('delete absent annotation', lambda p: p.metadata.annotations.__setitem__('stale', None))
    st('status set', lambda p: p.status.__setitem__('s', 1))
    st('number -> equal boolean', lambda p: p.spec.__setitem__('x', True))      # 1 == True in Python, not in JSON
    st('boolean -> equal number', lambda p: p.spec.__setitem__('b', 0))
    st('fn: number -> boolean', lambda p: p.fns.append(lambda b: b['spec'].__setitem__('x', True) if isinstance(b.get('spec'), dict) and b['spec'].get('x') == 1 else None))
    st('fn: append finalizer', lambda p: p.fns.append(lambda b: b.setdefault('metadata', {}).setdefault('finalizers', []).append('x/y')))
    st('fn: drop spec.x', lambda p: p.fns.append(lambda b: b.get('spec', {}).pop('x', None) if isinstance(b.get('spec'), dict) else None))
    # values that RELOCATE: a field renamed (the new key set to the old key's value, the old key deleted), a list put into another order
    st('set spec.moved to the value of spec.m', lambda p: p.spec.__setitem__('moved', {'k': 'v'}))
    st('delete spec.m', lambda p: p.spec.__setitem__('m', None))
    st('set spec.y to the value of spec.x', lambda p: p.spec.__setitem__('y', 1))
    st('fn: reverse spec.steps', lambda p: p.fns.append(lambda b: b['spec'].__setitem__('steps', list(reversed(b['spec']['steps']))) if isinstance(b.get('spec'), dict) and isinstance(b['spec'].get('steps'), list) else None))
    st('fn: rotate spec.steps', lambda p: p.fns.append(lambda b: b['spec'].__setitem__('steps', b['spec']['steps'][1:] + b['spec']['steps'][:1]) if isinstance(b.get('spec'), dict) and isinstance(b['spec'].get('steps'), list) else None))
    # one function object requested twice (a shared helper used by two code paths of a handler): two requests, two applications
    st('fn: same counter function twice', lambda p: (p.fns.append(_bump), p.fns.append(_bump)))
    return S


def objects() -> list[dict]:
    meta = {'name': 'a', 'namespace': 'ns', 'uid': 'u1'}
    return [
        {'apiVersion': 'kopf.dev/v1', 'kind': 'KopfExample', 'metadata': dict(meta), 'spec': {'x': 1, 'm': {'k': 'v'}, 'l': [1], 'b': False, 'steps': ['a', 'b', {'c': 1}]}},
        {'apiVersion': 'kopf.dev/v1', 'kind': 'KopfExample', 'metadata': dict(meta, annotations={'keep': 'me'}, finalizers=['a/b'])},
        {'apiVersion': 'kopf.dev/v1', 'kind': 'KopfExample', 'metadata': dict(meta), 'spec': {'x': {'k': 'old'}, 'm': 'scalar', 'l': {}}, 'status': {}},
    ]


def prune_empty(x: Any) -> Any:
    """Up to the presence of empty mappings; booleans are kept apart from the numbers Python equates them with."""
    if isinstance(x, dict):
        out = {k: prune_empty(v) for k, v in x.items()}
        return {k: v for k, v in out.items() if not (isinstance(v, dict) and not v)}
    if isinstance(x, list):
        return [prune_empty(v) for v in x]
    if isinstance(x, bool):
        return ('bool', x)
    return x


def mutation_product(tier: str, stats: Stats) -> list[Violation]:
    viols: dict[str, Violation] = {}
    ctx = Ctx()
    S = statements()
    n = 2 if tier == 'quick' else 3

    def add(kind: str, msg: str, **sig: Any) -> None:
        v = Violation('C18', kind, msg, dict(kind=kind, **sig), scenario='mutation', labels=None)  # type: ignore[arg-type]
        viols.setdefault(v.key(), v)

    programs = [list(c) for k in range(1, n + 1) for c in itertools.permutations(range(len(S)), k)] if tier == 'quick' else \
        [list(c) for k in range(1, 3) for c in itertools.permutations(range(len(S)), k)] + \
        [list(c) for c in itertools.permutations(range(0, len(S), 2), 3)]
    # every program on UPDATE; the one- and two-statement programs also on DELETE (object: null, oldObject set) for a handler that opted in
    jobs = [(obj, prog, 'UPDATE') for obj in objects() for prog in programs] + \
           [(obj, prog, 'DELETE') for obj in objects() for prog in programs if len(prog) <= (2 if tier != 'quick' else 1)]
    for obj, prog, op in jobs:
        if True:
            captured: dict[str, Any] = {}

            def program(p: Any, prog: list[int] = prog) -> None:
                for i in prog:
                    try:
                        S[i][1](p)
                    except Exception:
                        captured['invalid'] = True   # the statement itself is not expressible on this patch state
                        return
                captured['fields'] = json.loads(json.dumps(dict(p)))
                captured['fns'] = list(p.fns)
            ran: list[str] = []
            reg = kopf.OperatorRegistry()
            _declare(reg, 'm1', dict(type='mutating', operations=['DELETE'] if op == 'DELETE' else None, subresource=None, filtered=False), 'ok', ran, program=program)
            req = make_request(op, None, copy.deepcopy(obj) if op != 'DELETE' else None, old=copy.deepcopy(obj))
            names = [S[i][0] for i in prog]
            try:
                rsp = ctx.serve(reg, req)['response']
            except Exception as e:
                typechange = any(('scalar' in nm or 'mapping' in nm or 'list' in nm) for nm in names)
                add('serve-raises', f"{op} of object {json.dumps(obj.get('spec'))} program {names}: {type(e).__name__}: {e}",
                    exc=type(e).__name__, part='mutation', cls='type-change' if typechange and isinstance(e, (TypeError, AttributeError)) else 'other', op=op)
                continue
            if captured.get('invalid'):
                continue
            stats.executions += 1
            stats.transitions.add(hash((json.dumps(obj, sort_keys=True), tuple(prog), op)))
            try:
                expected = rfc7386.strip_nulls(rfc7386.merge(obj, captured.get('fields', {})))
                for fn in captured.get('fns', []):
                    fn(expected)
            except Exception as e:
                continue   # the reference itself cannot say what was requested (e.g. a transformation on a reshaped object)
            try:
                # Kubernetes decodes []byte fields with the STANDARD base64 alphabet, strictly
                ops = json.loads(base64.b64decode(rsp['patch'], validate=True)) if rsp.get('patch') else []
            except Exception as e:
                add('patch-not-decodable', f"object {json.dumps(obj.get('spec'))} program {names}: the returned patch {rsp['patch'][:60]!r}.. is not standard base64 "
                                           f"of a JSON document: {type(e).__name__}: {e}")
                continue
            if ops:
                stats.nontrivial.add(hash(json.dumps(ops, sort_keys=True)))
            stats.states.add(hash(json.dumps(expected, sort_keys=True)))
            try:
                got = rfc6902.apply(obj, ops)
            except rfc6902.PatchError as e:
                add('patch-does-not-apply', f"object {json.dumps(obj.get('spec'))} program {names}: returned ops {ops} do not apply: {e}")
                continue
            except (KeyError, TypeError, ValueError, IndexError, AttributeError) as e:
                # not even well-formed RFC 6902 (a member an operation requires is missing, a value of the wrong type)
                add('patch-does-not-apply', f"object {json.dumps(obj.get('spec'))} program {names}: returned ops {ops} are not a well-formed JSON patch: "
                                            f"{type(e).__name__}: {e}", cls='malformed')
                continue
            if prune_empty(got) != prune_empty(expected):
                nullish = 'null' in json.dumps(got)
                add('patch-unfaithful', f"object {json.dumps(obj.get('spec'))} program {names}: patch {ops} gives {json.dumps(prune_empty(got), ensure_ascii=False)}, "
                                        f"requested {json.dumps(prune_empty(expected), ensure_ascii=False)}", cls='null-left' if nullish else 'other')
            if rsp.get('patch') and rsp.get('patchType') != 'JSONPatch':
                add('patch-type', f"patchType is {rsp.get('patchType')}")
    stats.samples.append({'programs': len(programs), 'objects': len(objects()), 'statements': [s for s, _ in S][:8]})
    ctx.loop.close()
    return list(viols.values())


def all_violations(tier: str, stats: Stats) -> list[Violation]:
    return selection_product(tier, stats) + mutation_product(tier, stats)


def run(tier: str, seed: int) -> CheckResult:
    stats = Stats()
    viols = all_violations(tier, stats)
    stats.outcomes = set(stats.nontrivial)
    stats.bound_completed = 0
    return CheckResult(
        prop='C18', tier=tier, seed=seed, stats=stats, violations=viols, scenarios=2, bound_requested=0,
        rule="(A) 48 webhook declarations (type x operations x subresource x label filter) x outcome {ok, permanent} x 24 requests "
             "(operation x subresource x labelled) x webhook-id hint {none, own, other} x type hint; handler sets of 2 (quick) / 3 with "
             "outcomes {ok, ok+warning, AdmissionError(403), AdmissionError, PermanentError, TemporaryError, arbitrary}; (B) patch "
             "programs = permutations of <= 2 (quick) / 3 of 21 statements (set, overwrite, delete present/absent, nested under "
             "absent/mapping/scalar parent, type changes, special keys, transformation functions) x 3 reviewed objects; "
             "non-trivial = the handler is selected / the returned patch is non-empty",
        assumptions=["handler `operations` are enforced by Kubernetes via the webhook rules; kopf itself only withholds mutating handlers on DELETE "
                     "unless they opted in (operations == ['DELETE']) - demanded exactly so",
                     "the requested fields are read from the handler's patch object after it ran; nulls request deletion (RFC 7386)"])


def reverify(v: Violation) -> bool:
    st = Stats()
    return any(x.key() == v.key() for x in all_violations('quick', st)) or any(x.key() == v.key() for x in all_violations('thorough', st))


def replay(rec: dict[str, Any]) -> int:
    viols = [v for v in all_violations('thorough', Stats()) if json.loads(json.dumps(v.signature, default=repr)) == rec['signature']]
    for v in viols:
        print('VIOLATION', v.kind, v.message)
    return 1 if viols else 0
