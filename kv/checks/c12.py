"""
C12 Infrastructure errors are retried, then contained per object, never fatal.

(a) api.request through auth.authenticated with a real Vault and authenticator task: every fault
    sequence (the tree of answers until the request ends) over {ok, 500, 503, 403, 429 with and without
    Retry-After 0/2/9 as header or retryAfterSeconds, 400, 404, 409, 422, timeout, connection error} for
    error_backoffs {(), scalar, finite list, re-iterable} x enforce_retry_after; attempt instants and the
    final outcome must equal `api_retry_ref`. 401: 1-3 concurrent requests plus a late one on expired
    credentials: exactly one login per invalidation, everybody continues on the fresh session, the
    invalidated session is never used again.
(b) closed loop with two objects: every PATCH of object A fails for the first n attempts while events
    keep arriving inside the pause windows; A is paused for error_delays[i] (growing per consecutive error,
    repeating the last one, reset by a success), only A; B is handled in the instant its events arrive;
    the watcher survives; A converges once the errors stop.
"""
from __future__ import annotations

import asyncio
import itertools
import logging
from typing import Any, Iterable

import aiohttp
import kopf
from kopf._cogs.clients import api, auth, errors
from kopf._cogs.structs import credentials
from kopf._core.engines import activities

from kv.explorer import Env, Scenario, Stats, UserAction, Violation, execute, _account
from kv.harness.change import ChangeScenario, any_progress_keys, essence_ref, last_handled
from kv.harness.op import make_settings
from kv.runner import CheckResult, parallel_map, run_groups
from kv.world import KEX, FakeResponse, FakeSession, Request, World, status_body

RETRYABLE = {'500', '503', '403', '429', '429:ra0', '429:ra2', '429:ra9', '429:rs2', 'timeout', 'conn', 'disc', 'oserr'}
TERMINAL = {'400', '404', '409', '422'}
ALPHABET = ['ok', '500', '503', '403', '429', '429:ra0', '429:ra2', '429:ra9', '429:rs2', '400', '404', '409', '422', 'timeout', 'conn', 'disc', 'oserr']


class Reiterable:
    """A re-iterable (not a sequence, not sized) source of backoffs."""
    def __init__(self, items: list[float]) -> None:
        self.items = items

    def __iter__(self) -> Any:
        return iter(self.items)


BACKOFFS: dict[str, Any] = {'empty': (), 'scalar': 1.0, 'list': (1.0, 2.0), 'reiterable': Reiterable([1.0, 2.0])}


def backoff_list(name: str) -> list[float]:
    b = BACKOFFS[name]
    return [b] if isinstance(b, float) else list(b)


def api_retry_ref(seq: list[str], backoffs: list[float], enforce: bool) -> tuple[list[float], str]:
    """Attempt instants (relative) and the outcome ('ok' | exception class name | 'running')."""
    t = 0.0
    times = []
    for i, kind in enumerate(seq):
        times.append(t)
        if kind == 'ok':
            return times, 'ok'
        if kind in TERMINAL:
            return times, {'400': 'APIClientError', '404': 'APINotFoundError', '409': 'APIConflictError', '422': 'APIUnprocessableEntityError'}[kind]
        b = backoffs[i] if i < len(backoffs) else None
        if b is None:
            return times, {'500': 'APIServerError', '503': 'APIServerError', '403': 'APIForbiddenError', 'timeout': 'TimeoutError',
                           'conn': 'ClientConnectionError', 'disc': 'ServerDisconnectedError', 'oserr': 'ClientOSError',
                           'payload': 'ClientPayloadError'}.get(kind, 'APITooManyRequestsError')
        wait = b
        if kind.startswith('429:'):
            ra = int(kind.split(':')[1][2:])
            if enforce or ra > b:
                wait = float(ra)
        t += wait
    return times, 'running'


def sequences(nback: int, maxlen: int) -> Iterable[list[str]]:
    """The tree of answer sequences: extended only while the request is still being retried."""
    def rec(prefix: list[str]) -> Iterable[list[str]]:
        for kind in ALPHABET:
            seq = prefix + [kind]
            ends = kind == 'ok' or kind in TERMINAL or len(seq) > nback
            if ends or len(seq) >= maxlen:
                yield seq
            else:
                yield from rec(seq)
    yield from rec([])


class ScriptedSession(FakeSession):
    def __init__(self, world: World, env: Env, script: list[str], name: str) -> None:
        super().__init__(world, name)
        self.env, self.script = env, script

    async def request(self, method: str, url: str, **kw: Any) -> FakeResponse:  # type: ignore[override]
        env = self.env
        task = asyncio.current_task()
        who = task.get_name() if task else '?'
        if self._closed:
            env.log('attempt', who=who, session=self.name, answer='closed')
            raise RuntimeError("Session is closed")
        issued = env.now
        lat = getattr(self, 'latency', {}).get(who)
        if lat:
            await asyncio.sleep(lat)     # a slow answer: it may arrive after somebody else has already re-authenticated
        first = getattr(self, 'first_answers', {})
        if who in first and not env.counters.get(f'first:{self.name}:{who}'):
            # this request's first attempt meets a server error instead (it will sleep in its backoff while others re-authenticate)
            env.count(f'first:{self.name}:{who}')
            env.log('attempt', who=who, session=self.name, answer=first[who], issued=issued)
            return FakeResponse(status=int(first[who]), headers={}, body=status_body(int(first[who])), url=url, method=method)
        if not self.valid:
            env.log('attempt', who=who, session=self.name, answer='401', issued=issued)
            return FakeResponse(status=401, headers={}, body=status_body(401), url=url, method=method)
        i = env.count(f'attempt:{who}') - 1
        kind = self.script[i] if i < len(self.script) else 'ok'
        env.log('attempt', who=who, session=self.name, answer=kind, i=i, issued=issued)
        if kind == 'ok':
            return FakeResponse(status=200, headers={}, body={'kind': 'KopfExample', 'metadata': {'name': 'a'}}, url=url, method=method)
        if kind == 'conn':
            raise aiohttp.ClientConnectionError('connection refused')
        if kind == 'disc':       # the server (or a balancer) closed the connection after the request was sent, before any byte of the answer
            raise aiohttp.ServerDisconnectedError()
        if kind == 'oserr':      # connection reset by peer
            raise aiohttp.ClientOSError(104, 'Connection reset by peer')
        if kind == 'payload':    # the answer broke off in the middle
            raise aiohttp.ClientPayloadError('Response payload is not completed')
        if kind == 'timeout':
            raise asyncio.TimeoutError()
        code, _, extra = kind.partition(':')
        headers, details = {}, None
        if extra.startswith('ra'):
            headers['Retry-After'] = extra[2:]
        if extra.startswith('rs'):
            details = {'retryAfterSeconds': int(extra[2:])}
        return FakeResponse(status=int(code), headers=headers, body=status_body(int(code), details=details), url=url, method=method)


class RetryScenario(Scenario):
    name = 'c12-retry'
    prop = 'C12'
    horizon = 60.0
    kinds: list = []

    def setup(self, env: Env) -> None:
        seq = self.params['seq']
        settings = make_settings(networking__error_backoffs=BACKOFFS[self.params['backoffs']],
                                 networking__enforce_retry_after=self.params['enforce'])
        session = ScriptedSession(env.world, env, seq, 's1')

        async def main() -> None:
            auth.vault_var.set(credentials.Vault({'login': credentials.AiohttpSession(server=World.SERVER, aiohttp_session=session)}))  # type: ignore[arg-type]
            try:
                await api.get('/apis/kopf.dev/v1/namespaces/ns/kopfexamples/a', settings=settings, logger=logging.getLogger('kv'))
            except BaseException as e:
                env.log('result', outcome=type(e).__name__)
            else:
                env.log('result', outcome='ok')
        env.spawn('A', main(), name='req')

    def check(self, env: Env) -> list[Violation]:
        seq, enforce = self.params['seq'], self.params['enforce']
        want_t, want_out = api_retry_ref(seq, backoff_list(self.params['backoffs']), enforce)
        got_t = [t for t, k, p in env.obs if k == 'attempt']
        got_out = next((p['outcome'] for _, k, p in env.obs if k == 'result'), 'running')
        out = []
        if got_t != want_t:
            i = next((i for i, (g, w) in enumerate(itertools.zip_longest(got_t, want_t)) if g != w), 0)
            g = got_t[i] if i < len(got_t) else None
            w = want_t[i] if i < len(want_t) else None
            cls = 'extra-attempt' if w is None else ('missing-attempt' if g is None else ('too-early' if g < w else 'too-late'))
            prev = seq[i - 1] if i else None
            out.append(self.viol(env, 'attempt-schedule', f"backoffs={self.params['backoffs']} enforce={enforce} answers={seq}: attempts at {got_t}, the policy says {want_t}",
                                 cls=cls, after='429+retry-after' if prev and ':' in prev else ('429' if prev == '429' else 'other')))
        if got_out != want_out:
            out.append(self.viol(env, 'request-outcome', f"backoffs={self.params['backoffs']} enforce={enforce} answers={seq}: ended with {got_out}, the policy says {want_out}",
                                 want=want_out))
        return out


class ReauthScenario(Scenario):
    name = 'c12-reauth'
    prop = 'C12'
    horizon = 60.0
    kinds: list = []

    def setup(self, env: Env) -> None:
        n = self.params['concurrent']
        login_time = self.params['login_time']
        settings = make_settings(networking__error_backoffs=(1.0,))
        s1 = ScriptedSession(env.world, env, [], 's1')
        s1.valid = False     # the credentials have expired: every request on them gets 401
        s1.latency = dict(self.params.get('latency') or {})   # type: ignore[attr-defined]
        s1.first_answers = dict(self.params.get('first_answers') or {})   # type: ignore[attr-defined]
        registry = kopf.OperatorRegistry()
        sessions = [s1]

        @kopf.on.login(registry=registry, id='login')
        async def login(**_: Any) -> Any:
            k = env.count('logins')
            env.log('login', n=k)
            if login_time:
                await asyncio.sleep(login_time)
            if self.params.get('reoffer') and k >= 2:
                # the login handler has nothing better to offer than the credentials that were invalidated first
                return credentials.AiohttpSession(server=World.SERVER, aiohttp_session=s1)  # type: ignore[arg-type]
            s = ScriptedSession(env.world, env, [], f's{k + 1}')
            if (self.params.get('second_expires') and k == 1) or (self.params.get('reoffer') and k == 1):
                s.valid = False
            sessions.append(s)
            return credentials.AiohttpSession(server=World.SERVER, aiohttp_session=s)  # type: ignore[arg-type]

        async def one(name: str, delay: float) -> None:
            if delay:
                await asyncio.sleep(delay)
            try:
                await api.get('/apis/kopf.dev/v1/namespaces/ns/kopfexamples/a', settings=settings, logger=logging.getLogger('kv'))
            except BaseException as e:
                env.log('result', who=name, outcome=type(e).__name__)
            else:
                env.log('result', who=name, outcome='ok')

        async def main() -> None:
            vault = credentials.Vault({'login': credentials.AiohttpSession(server=World.SERVER, aiohttp_session=s1)})  # type: ignore[arg-type]
            auth.vault_var.set(vault)
            authn = asyncio.create_task(activities.authenticator(registry=registry, settings=settings, indices={}, vault=vault, memo=None),  # type: ignore[arg-type]
                                        name='authenticator')
            tasks = [asyncio.create_task(one(f'r{i}', 0.0), name=f'r{i}') for i in range(n)]
            tasks.append(asyncio.create_task(one('late', 0.5), name='late'))
            await asyncio.wait(tasks)
            authn.cancel()
            env.log('done')
        env.spawn('A', main(), name='main')

    def check(self, env: Env) -> list[Violation]:
        out = []
        logins = [t for t, k, p in env.obs if k == 'login']
        if self.params.get('reoffer'):
            # s1 invalid -> login -> s2 invalid -> login offers s1 again: known-invalid credentials are not taken back; with nothing else on
            # offer every blocked request fails with a login error - and nobody is sent round in circles
            out = []
            results = {p['who']: p['outcome'] for _, k, p in env.obs if k == 'result'}
            want = [f"r{i}" for i in range(self.params['concurrent'])] + ['late']
            if env.end_reason in ('step-budget', 'livelock', 'stall') or len(logins) > 4:
                out.append(self.viol(env, 'invalidated-credentials-reused', f"{len(logins)} login activities and counting: the credentials invalidated first were "
                                                                           f"accepted again when re-offered (execution ended: {env.end_reason})", what='loop'))
            for who in want:
                if results.get(who) not in ('LoginError',) and who in results:
                    out.append(self.viol(env, 'invalidated-credentials-reused', f"request {who} ended with {results.get(who)} although only invalidated credentials were on offer",
                                         what='outcome'))
            stale = [(t, p['who']) for t, k, p in env.obs if k == 'attempt' and p['session'] == 's1' and any(tt < t for tt, kk, pp in env.obs if kk == 'attempt' and pp['session'] == 's2')]
            if stale:
                out.append(self.viol(env, 'invalidated-credentials-reused', f"requests went back to the invalidated first session after the second one: {stale[:4]}", what='attempt'))
            return out
        want_logins = 2 if self.params.get('second_expires') else 1
        if len(logins) != want_logins:
            out.append(self.viol(env, 'login-count', f"{len(logins)} login activities for {want_logins} invalidation(s) with {self.params['concurrent']}+1 blocked requests",
                                 got=len(logins), want=want_logins))
        results = {p['who']: p['outcome'] for _, k, p in env.obs if k == 'result'}
        for who in [f"r{i}" for i in range(self.params['concurrent'])] + ['late']:
            if results.get(who) != 'ok':
                out.append(self.viol(env, 'blocked-request-failed', f"request {who} ended with {results.get(who)} after the re-authentication", want='ok'))
        # an invalidated session is never handed out again: after the first 401 on it is reported and a newer session
        # exists, no NEW request may start on it (requests already in flight may still fail on it once)
        first_ok_session = None
        for t, k, p in env.obs:
            if k == 'attempt' and p['answer'] == 'ok':
                first_ok_session = first_ok_session or p['session']
        seen_new = False
        last_session: dict[str, str] = {}
        for t, k, p in env.obs:
            if k == 'attempt':
                prev = last_session.get(p['who'])
                if prev is not None and prev > p['session']:
                    out.append(self.viol(env, 'stale-credentials-reused', f"t={t}: request {p['who']} went back from session {prev} to the invalidated {p['session']}"))
                last_session[p['who']] = p['session']
        # once the 401 on a session has come back (it is invalidated from then on), no request is SENT on it any more - also not the
        # retry of a request that was sleeping in its backoff meanwhile (requests sent before that moment may still come back with 401)
        first_401: dict[str, float] = {}
        for t, k, p in env.obs:
            if k == 'attempt' and p['answer'] == '401':
                first_401.setdefault(p['session'], t)
        for t, k, p in env.obs:
            if k == 'attempt' and p['answer'] != 'closed' and p['session'] in first_401 and p.get('issued', t) > first_401[p['session']] + 1e-9:
                out.append(self.viol(env, 'stale-credentials-reused', f"t={p.get('issued', t)}: request {p['who']} was sent on session {p['session']}, which had been "
                                                                      f"answered 401 at t={first_401[p['session']]} (invalidated credentials)", how='sent-after-invalidation'))
        final_sessions = {p['who']: p['session'] for _, k, p in env.obs if k == 'attempt' and p['answer'] == 'ok'}
        want_final = 's3' if self.params.get('second_expires') else 's2'
        for who, s in final_sessions.items():
            if s != want_final:
                out.append(self.viol(env, 'wrong-credentials', f"request {who} succeeded on session {s}, the fresh one is {want_final}"))
        return out


# ---- (b) per-object containment -------------------------------------------------------------------

class ThrottleScenario(ChangeScenario):
    name = 'c12-throttle'
    prop = 'C12'

    def build_settings(self) -> Any:
        st = super().build_settings()
        if self.params.get('delays_as') == 'reiterable':
            # the documented way to have endless / jittered delays: an object that can be iterated again and again (no len, no index)
            st.queueing.error_delays = Reiterable(list(self.params['error_delays']))     # type: ignore[assignment]
        elif self.params.get('delays_as') == 'list':
            st.queueing.error_delays = list(self.params['error_delays'])
        return st

    def serve_fault(self, env: Env, req: Request) -> str | None:
        if req.method == 'patch' and req.path.endswith('/a') and env.counters.get('a-faults', 0) < self.params['fail_first']:
            env.count('a-faults')
            return self.params.get('fault', '500')
        return None

    def check(self, env: Env) -> list[Violation]:
        out: list[Violation] = []
        if env.end_reason in ('stall', 'livelock', 'step-budget', 'deadlock'):
            return [self.viol(env, 'no-progress', f'execution ended with {env.end_reason}', end=env.end_reason)]
        delays = list(self.params['error_delays'])
        exact = not env.deviations
        for t, k, p in env.obs:
            if k == 'pipeline-error':
                out.append(self.viol(env, 'operator-task-failed', f"t={t}: a root task failed: {p.get('error')}", clause='never-fatal'))
        # B is handled when its events arrive
        if exact:
            delivered = {}
            for t, k, p in env.obs:
                if k == 'deliver' and isinstance(p['item'], tuple) and p['item'][1] == 'b':
                    delivered[p['item'][2]] = t
            seen = {p['rv']: t for t, k, p in env.obs if k == 'call' and p['id'] == 'ev' and p.get('name') == 'b'}
            for rv, td in delivered.items():
                if seen.get(rv) != td:
                    out.append(self.viol(env, 'other-object-delayed', f"object b's event version {rv} delivered at {td} was processed at {seen.get(rv)} while object a was failing",
                                         clause='only-that-object'))
        # A: attempts (= processing steps that reach the handlers) against the reference pause schedule
        attempts = [t for t, k, p in env.obs if k == 'call' and p['id'] == 'ev' and p.get('name') == 'a']
        fails = [t for t, k, p in env.obs if k == 'srv' and p.get('fault') and p['path'].endswith('/a')]
        arrivals = sorted(t for t, k, p in env.obs if k == 'deliver' and isinstance(p['item'], tuple) and p['item'][1] == 'a')
        if exact and delays:
            # reference: an attempt happens when an event is there and the object is not paused; a failed attempt pauses it
            want: list[float] = []
            paused_until = None
            idx = 0
            fail_set = list(fails)
            pending = list(arrivals)
            tnow = 0.0
            guard = 0
            while pending and guard < 200:
                guard += 1
                ta = pending.pop(0)
                tnow = max(tnow, ta)
                if paused_until is not None and tnow < paused_until:
                    # skipped unless it is the latest one when the pause ends
                    later = [x for x in pending if x < paused_until]
                    if later:
                        continue
                    tnow = paused_until
                    paused_until = None
                want.append(tnow)
                slow = float(self.params.get('slow', 0.0))     # the attempt takes this long before its PATCH fails
                if fail_set and -1e-9 <= fail_set[0] - tnow <= slow + 1e-9:
                    tfail = fail_set.pop(0)
                    d = delays[min(idx, len(delays) - 1)]
                    idx += 1
                    paused_until = tfail + d                   # the pause counts from the failure, not from the start of the attempt
                    tnow = tfail
                elif tnow in fails:
                    pass
                else:
                    idx = 0
                    tnow = tnow + slow
            if attempts != want:
                out.append(self.viol(env, 'pause-schedule', f"object a: processed at {attempts}, with failures at {fails} and error_delays {delays} the policy says {want} "
                                                            f"(events arrived at {arrivals})", clause='error-delays'))
        # no processing of A inside a pause window (holds under any timing)
        if delays:
            idx = 0
            last_fail = None
            for t in sorted(set(attempts + fails)):
                pass
        # recovery
        # (recovery needs an occasion: an event of the object that arrives after the last failure)
        if not env.owes() and env.now >= self.horizon - 1 and (not fails or any(ta > max(fails) for ta in arrivals)):
            obj = env.world.get(KEX, 'ns', 'a')
            if obj is not None and (last_handled(obj) != essence_ref(obj) or any_progress_keys(obj)):
                out.append(self.viol(env, 'no-recovery', f"object a did not converge after the errors stopped: last-handled {last_handled(obj)}, progress {any_progress_keys(obj)}",
                                     clause='recovers'))
        return out


def throttle_scenarios(tier: str) -> list[ThrottleScenario]:
    out = []
    handlers = [dict(id='ev', on='event', script=['ok']), dict(id='c1', on='create', script=['ok']), dict(id='u1', on='update', script=['ok'])]
    delay_sets: list[tuple] = [(1.0, 4.0, 16.0), (2.0,), ()]
    for delays in delay_sets:
        for fail_first in (1, 2, 3, 4):
            for a_events in ([1.25, 1.5, 3.0, 5.5, 9.0, 30.0], [1.5, 2.0, 6.0, 30.0, 31.0], [30.0], [2.5, 7.0, 23.0, 40.0, 41.0]):
                user: list[tuple] = [(1.0, 'create', 'a'), (1.0, 'create', 'b')]
                for i, t in enumerate(a_events):
                    user.append((t, 'status', 'a', i))
                for i, t in enumerate((1.25, 3.5, 6.5)):
                    user.append((t, 'spec', 'b', 10 + i))
                user.sort(key=lambda x: x[0])
                out.append(ThrottleScenario(handlers=handlers, user=user, horizon=70.0, error_delays=list(delays), fail_first=fail_first,
                                            settings={'queueing__error_delays': delays, 'networking__error_backoffs': (),
                                                      'persistence__consistency_timeout': 5.0}))
                if delays and a_events[0] == 1.25:
                    for how in ('reiterable', 'list'):
                        out.append(ThrottleScenario(handlers=handlers, user=user, horizon=70.0, error_delays=list(delays), fail_first=fail_first, delays_as=how,
                                                    settings={'queueing__error_delays': delays, 'networking__error_backoffs': (),
                                                              'persistence__consistency_timeout': 5.0}))
                if delays and fail_first <= 2:
                    # attempts that take a while (0.5 s in the raw-event handler) before their PATCH fails
                    slow_handlers = [dict(h, script=['ok~0.5']) if h['id'] == 'ev' else h for h in handlers]
                    out.append(ThrottleScenario(handlers=slow_handlers, user=[u for u in user if u[2] == 'a' or u[1] == 'create'], horizon=70.0,
                                                error_delays=list(delays), fail_first=fail_first, slow=0.5,
                                                settings={'queueing__error_delays': delays, 'networking__error_backoffs': (),
                                                          'persistence__consistency_timeout': 5.0}))
    return out


def _retry_chunk(args: tuple[str, bool, list[list[str]]]) -> tuple[Stats, list[Violation]]:
    backoffs, enforce, seqs = args
    stats = Stats()
    viols: dict[str, Violation] = {}
    for seq in seqs:
        sc = RetryScenario(backoffs=backoffs, enforce=enforce, seq=seq)
        env = execute(sc)
        _account(stats, env, 0, None)
        stats.states.add(hash((backoffs, enforce, tuple(seq))))
        stats.transitions.add(hash((backoffs, enforce, tuple(seq), env.outcome_digest())))
        if len(seq) > 1:
            stats.nontrivial.add(env.outcome_digest())
        for v in env.violations:  # type: ignore[attr-defined]
            v.labels = None  # type: ignore[assignment]
            viols.setdefault(v.key(), v)
    return stats, list(viols.values())


def run(tier: str, seed: int) -> CheckResult:
    total = Stats()
    viols: dict[str, Violation] = {}
    jobs = []
    nseq = 0
    for bname in BACKOFFS:
        nb = len(backoff_list(bname))
        maxlen = nb + (1 if tier == 'quick' and nb == 2 else 2) if nb else 2
        maxlen = min(maxlen, nb + 1) if True else maxlen
        seqs = list(sequences(nb, nb + 1))
        nseq += len(seqs)
        for enforce in (False, True):
            for i in range(0, len(seqs), 200):
                jobs.append((bname, enforce, seqs[i:i + 200]))
    for st, vs in parallel_map(_retry_chunk, jobs):
        total.merge(st)
        for v in vs:
            viols.setdefault(v.key(), v)
    reauth = [ReauthScenario(concurrent=n, login_time=lt, second_expires=se, latency=lat)
              for n in (1, 2, 3) for lt in (0.0, 1.0) for se in (False, True)
              for lat in ([None] if n == 1 else [None, {'r0': 2.0}, {'r0': 0.5}, {'r0': 3.0, 'r1': 0.25}])]
    # one request sleeps in its retry backoff after a 5xx while the others' 401 makes the session be replaced under it
    reauth += [ReauthScenario(concurrent=n, login_time=lt, second_expires=False, latency=None, first_answers=fa)
               for n in (2, 3) for lt in (0.0, 0.5, 2.0) for fa in ({'r0': '500'}, {'r1': '503'}, {'r0': '500', 'late': '500'})]
    reauth += [ReauthScenario(concurrent=n, login_time=lt, second_expires=False, latency=None, reoffer=True) for n in (1, 3) for lt in (0.0, 1.0)]
    groups = [('reauth', reauth, 1 if tier == 'quick' else 2, 30.0), ('throttling', throttle_scenarios(tier), 1 if tier == 'quick' else 2, 60.0 if tier == 'quick' else 600.0)]
    st2, v2, info, nscen = run_groups(groups, seed=seed)
    retry_execs = total.executions
    total.merge(st2)
    total.bound_completed = st2.bound_completed
    for v in v2:
        viols.setdefault(v.key(), v)
    return CheckResult(
        prop='C12', tier=tier, seed=seed, stats=total, violations=list(viols.values()), scenarios=nscen + retry_execs,
        bound_requested=groups[0][2], extra={'groups': info, 'retry_sequences': retry_execs},
        rule="(a) the complete tree of answer sequences (15 answer kinds per attempt, extended while the request is retried, up to len(backoffs)+1 "
             "attempts) x error_backoffs {(), scalar 1, (1,2), re-iterable} x enforce_retry_after: attempt instants and final exception class vs "
             "api_retry_ref; re-authentication: 1-3 concurrent requests + a late one on expired credentials x login duration {0,1} x a second "
             "expiry, with a deviation-bounded search; (b) two objects, object a's PATCHes fail for the first 1-4 attempts x error_delays "
             "{(1,4,16), (2,), ()} x event arrival patterns inside the pause windows; pause schedule vs reference, b handled at its arrival "
             "instants, recovery; non-trivial = the sequence has a retry / outcome differs from the default schedule",
        assumptions=["one-shot iterators as error_backoffs are not among the property's configurations and are not demanded",
                     "the aiohttp transport itself is not exercised: faults are produced by the scripted session"])


def scenario_from(name: str, params: dict[str, Any]) -> Scenario:
    return {'c12-retry': RetryScenario, 'c12-reauth': ReauthScenario, 'c12-throttle': ThrottleScenario}[name](**params)


def reverify(v: Violation) -> bool:
    env = execute(scenario_from(v.scenario, v.params), v.labels or [])
    return any(x.key() == v.key() for x in getattr(env, 'violations', []))


def replay(rec: dict[str, Any]) -> int:
    env = execute(scenario_from(rec['scenario'], rec['params']), rec['labels'] or [])
    viols = getattr(env, 'violations', [])
    for t, k, p in env.obs:
        if k in ('attempt', 'result', 'login', 'user', 'call') or (k == 'srv' and p.get('fault')):
            print(f'{t:8.3f} {k:8s}', {kk: vv for kk, vv in p.items() if kk in ('who', 'session', 'kind', 'outcome', 'name', 'id', 'rv', 'fault', 'path')})
    for v in viols:
        print('VIOLATION', v.kind, v.message)
    return 1 if viols else 0
