"""
C11 Handler error policy: retry delays, permanence, retries/timeout limits.

Subject: execution.execute_handler_once (classification, look-ahead limits), progression.HandlerState
(delayed/sleeping/awakened, retries), and the five carriers that drive it: change handlers and
sub-handlers (persisted, across restarts), daemons, timers (in memory), activities.
Search: errors mode {default, TEMPORARY, PERMANENT, IGNORED} x retries {None,1,2,3} x timeout {None,5}
x backoff {default(8), 2} x outcome scripts of length <= 2 (quick) / 3 over {ok, temporary(3),
temporary(delay=None), permanent, arbitrary}, for every carrier; for change handlers additionally every
crash point (kill before / after the server applied each in-flight PATCH, then restart).
Oracle: the observed sequence of (virtual time, retry kwarg) per handler equals the reference schedule
`retry_ref`; with crashes: retry numbers never go backwards, never skip, gaps are never shorter than the
requested delay/backoff, and the number of invocations exceeds the limit by at most the number of crashes.
"""
from __future__ import annotations

import asyncio
import itertools
from typing import Any

import kopf
from kopf._core.actions import lifecycles
from kopf._core.engines import activities
from kopf._core.intents import causes

from kv.explorer import Env, Scenario, UserAction, Violation, execute
from kv.harness.change import ChangeScenario, finished, parse_script, progress_records
from kv.harness.op import make_settings, scripted
from kv.runner import CheckResult, run_groups

DEFAULT_BACKOFF = 8.0
INTERVAL = 16.0


def retry_ref(mode: str | None, retries: int | None, timeout: float | None, backoff: float | None,
              script: list[str], t0: float, horizon: float, default_mode: str = 'TEMPORARY'
              ) -> tuple[list[tuple[float, int]], str]:
    """Expected invocations [(time, retry)] of one handler cycle starting at t0, and how it ends."""
    outs = parse_script(script)
    B = backoff if backoff is not None else DEFAULT_BACKOFF
    M = mode or default_mode
    seq: list[tuple[float, int]] = []
    t, k = t0, 0
    while t <= horizon:
        runtime = t - t0
        if timeout is not None and runtime >= timeout:
            return seq, 'failed'
        if retries is not None and k >= retries:
            return seq, 'failed'
        seq.append((t, k))
        o = outs[min(k, len(outs) - 1)]
        end = t + o.sleep
        runtime = end - t0
        if o.kind == 'ok':
            return seq, 'ok'
        if o.kind == 'perm':
            return seq, 'failed'
        if o.kind == 'temp':
            d = o.delay or 0.0
        else:
            if M == 'IGNORED':
                return seq, 'ok'
            if M == 'PERMANENT':
                return seq, 'failed'
            d = B
        if (timeout is not None and runtime + d >= timeout) or (retries is not None and k + 1 >= retries):
            return seq, 'failed'
        t = end + d
        k += 1
    return seq, 'running'


class C11Scenario(ChangeScenario):
    name = 'c11'
    prop = 'C11'

    def extra(self, env: Env) -> Any:
        yield from super().extra(env)
        if self.params.get('kills') and env.counters.get('kills', 0) < self.params.get('max_kills', 1):
            p = env.memo.get('pipeline')
            if p is not None:
                mine = [r for r in env.world.pending if r.opid == p.opid and r.state == 'new' and r.method == 'patch']
                if mine:
                    def go(req: Any = mine[0]) -> None:
                        env.world.apply(req)
                        env.log('srv', verb='apply-then-kill', **req.brief())
                        self.kill_and_restart(env)
                    yield f'killafter:{p.opid}', go

    def check(self, env: Env) -> list[Violation]:
        out: list[Violation] = []
        if env.end_reason in ('stall', 'livelock', 'step-budget', 'deadlock'):
            return [self.viol(env, 'no-progress', f'execution ended with {env.end_reason}', end=env.end_reason)]
        cfg = self.params['cfg']
        carrier = self.params['carrier']
        hid = self.params['subject']
        script = self.params['script']
        calls = [(t, p['retry']) for t, k, p in env.obs if k == 'call' and p['id'] == hid]
        kills = sum(1 for _, k, _ in env.obs if k == 'kill')
        idle_edits = self.params.get('variant') == 'idle-edits'    # attempts postponed by the idle time: the statement-level laws, per cycle
        disturbed = bool(env.deviations) or bool(self.params.get('downtime')) or idle_edits    # downtimes: the statement-level laws
        mode, retries, timeout, backoff = cfg['errors'], cfg['retries'], cfg['timeout'], cfg['backoff']
        if not calls:
            if not disturbed:
                out.append(self.viol(env, 'never-invoked', f"{carrier} handler {hid} was never invoked", carrier=carrier))
            return out
        if not disturbed:
            want: list[tuple[float, int]] = []
            t0 = calls[0][0]
            status = None
            if carrier == 'timer':
                # cycles: after a successful cycle the next one starts one interval after the end of the last run
                t = t0
                while t <= self.horizon:
                    seq, status = retry_ref(mode, retries, timeout, backoff, script[len(want):] or script[-1:], t, self.horizon)
                    want += seq
                    if status != 'ok' or not seq:
                        break
                    last = parse_script(script)[min(len(want) - 1, len(script) - 1)]
                    t = seq[-1][0] + last.sleep + INTERVAL
            else:
                want, status = retry_ref(mode, retries, timeout, backoff, script, t0, self.horizon)
            want = [(t, k) for t, k in want if t < self.horizon]
            got = [(t, k) for t, k in calls if t < self.horizon]
            if got != want:
                # classify the first difference
                i = next((i for i, (g, w) in enumerate(itertools.zip_longest(got, want)) if g != w), 0)
                g = got[i] if i < len(got) else None
                w = want[i] if i < len(want) else None
                if w is None:
                    cls = 'extra-invocation-after-' + (status or '?')
                elif g is None:
                    cls = 'missing-invocation'
                elif g[1] != w[1]:
                    cls = 'wrong-retry-number'
                elif g[0] < w[0]:
                    cls = 'too-early'
                else:
                    cls = 'too-late'
                out.append(self.viol(env, 'schedule-mismatch',
                                     f"{carrier} handler {hid} cfg={cfg} script={script}: invoked at {got}, the error policy says {want} (ends: {status})",
                                     carrier=carrier, cls=cls))
            # the persisted verdict for change handlers (while the cycle is not closed) is checked via behaviour above.
        elif idle_edits:
            # a timer whose attempts are postponed by the idle time: the limits hold per cycle (a cycle ends with a success - or an ignored
            # error -, the next call opens a new one with retry 0)
            outs = parse_script(script)
            cycles: list[list[tuple[float, int, Any]]] = [[]]
            for n, (t, k) in enumerate(calls):
                o = outs[min(n, len(outs) - 1)]
                cycles[-1].append((t, k, o))
                if o.kind == 'ok' or (o.kind == 'arb' and mode == 'IGNORED'):
                    cycles.append([])
            for cyc in cycles:
                if not cyc:
                    continue
                ks = [k for _, k, _ in cyc]
                if ks != list(range(len(ks))):
                    out.append(self.viol(env, 'retry-number-jump', f"{hid}: retry numbers {ks} within one cycle (attempts at {[t for t, _, _ in cyc]}): the attempts are not counted",
                                         carrier=carrier))
                if retries is not None and len(cyc) > retries:
                    out.append(self.viol(env, 'too-many-invocations', f"{hid}: {len(cyc)} invocations in one cycle with retries={retries}: at {[t for t, _, _ in cyc]}", carrier=carrier))
                if timeout is not None:
                    late = [t for t, _, _ in cyc[1:] if t - cyc[0][0] >= timeout]
                    if late:
                        out.append(self.viol(env, 'attempt-after-timeout', f"{hid}: attempts at {late}, timeout {timeout} after the first at {cyc[0][0]}", carrier=carrier))
                for (t1, _, o1), (t2, _, _) in zip(cyc, cyc[1:]):
                    need = (o1.delay or 0.0) if o1.kind == 'temp' else ((backoff if backoff is not None else DEFAULT_BACKOFF) if o1.kind == 'arb' else 0.0)
                    if t2 - t1 < need + o1.sleep:
                        out.append(self.viol(env, 'retried-too-soon', f"{hid}: attempt at t={t2}, only {t2 - t1}s after the failed one at {t1} (needs {need}+{o1.sleep})", carrier=carrier))
        else:
            # crashes / timing deviations: the weaker, statement-level laws
            outs = parse_script(script)
            prev_t, prev_k = None, None
            for t, k in calls:
                if prev_k is not None:
                    if k < prev_k or k > prev_k + 1:
                        out.append(self.viol(env, 'retry-number-jump', f"{hid}: retry went {prev_k} -> {k} at t={t}", carrier=carrier))
                    if k == prev_k + 1:
                        o = outs[min(prev_k, len(outs) - 1)]
                        need = (o.delay or 0.0) if o.kind == 'temp' else ((backoff if backoff is not None else DEFAULT_BACKOFF) if o.kind == 'arb' else 0.0)
                        if t - prev_t < need + o.sleep:
                            out.append(self.viol(env, 'retried-too-soon', f"{hid}: retry {k} at t={t}, only {t - prev_t}s after retry {prev_k} "
                                                                          f"(needs {need}+{o.sleep})", carrier=carrier))
                prev_t, prev_k = t, k
            if retries is not None and len(calls) > retries + kills:
                out.append(self.viol(env, 'too-many-invocations', f"{hid}: {len(calls)} invocations with retries={retries} and {kills} crashes", carrier=carrier))
            if timeout is not None:
                first = calls[0][0]
                late = [t for t, k in calls if t - first >= timeout and k > 0]
                if late and not kills:
                    out.append(self.viol(env, 'attempt-after-timeout', f"{hid}: attempts at {late}, timeout {timeout} after the first at {first}", carrier=carrier))
        return out


class ActivityScenario(Scenario):
    """Startup activity handlers driven by activities.run_activity on the virtual loop."""
    name = 'c11-activity'
    prop = 'C11'
    horizon = 60.0
    kinds: list = []

    def setup(self, env: Env) -> None:
        cfg = self.params['cfg']
        reg = kopf.OperatorRegistry()
        kw = {k: v for k, v in cfg.items() if v is not None and k != 'errors'}
        if cfg['errors']:
            kw['errors'] = getattr(kopf.ErrorsMode, cfg['errors'])
        kopf.on.startup(id='act', registry=reg, **kw)(scripted(env, 'act', parse_script(self.params['script'])))
        if self.params.get('sibling'):
            # a second handler of the same activity that needs more rounds: the verdict of the whole activity covers ALL its handlers
            kopf.on.startup(id='sib', registry=reg, backoff=1.0)(scripted(env, 'sib', parse_script(self.params['sibling'])))
        settings = make_settings()

        async def main() -> None:
            try:
                await activities.run_activity(lifecycle=lifecycles.all_at_once, registry=reg, settings=settings,
                                              activity=causes.Activity.STARTUP, indices={}, memo=None)  # type: ignore[arg-type]
            except activities.ActivityError:
                env.log('activity', result='failed')
            else:
                env.log('activity', result='ok')
        env.spawn('A', main(), name='main')

    def check(self, env: Env) -> list[Violation]:
        cfg, script = self.params['cfg'], self.params['script']
        calls = [(t, p['retry']) for t, k, p in env.obs if k == 'call' and p['id'] == 'act']
        want, status = retry_ref(cfg['errors'], cfg['retries'], cfg['timeout'], cfg['backoff'], script, 0.0, self.horizon)
        want = [(t, k) for t, k in want if t < self.horizon]
        out = []
        if [(t, k) for t, k in calls if t < self.horizon] != want:
            out.append(self.viol(env, 'schedule-mismatch', f"activity cfg={cfg} script={script}: invoked at {calls}, the error policy says {want} (ends: {status})",
                                 carrier='activity', cls='any'))
        res = [p['result'] for _, k, p in env.obs if k == 'activity']
        if self.params.get('sibling') and status in ('ok', 'failed'):
            sib_last = self.params['sibling'][-1].split('~')[0]
            status = 'failed' if (status == 'failed' or sib_last == 'perm') else 'ok'    # one handler failed for good = the activity failed
        if status in ('ok', 'failed') and res != [status]:
            out.append(self.viol(env, 'activity-verdict', f"activity cfg={cfg} script={script}: result {res}, expected {status}", carrier='activity'))
        return out


def configs(tier: str) -> list[dict]:
    out = []
    for errors, retries, timeout, backoff in itertools.product([None, 'TEMPORARY', 'PERMANENT', 'IGNORED'], [None, 1, 2, 3], [None, 5.0], [None, 2.0]):
        if tier == 'quick' and errors == 'TEMPORARY':
            continue   # identical to the default for these carriers; kept for the thorough tier
        out.append(dict(errors=errors, retries=retries, timeout=timeout, backoff=backoff))
    return out


def scripts(tier: str) -> list[list[str]]:
    alpha = ['ok', 'temp', 'tempN', 'perm', 'arb']
    out = [[a] for a in alpha] + [[a, b] for a in alpha if a not in ('ok', 'perm') for b in alpha]
    out += [['temp', 'arb', 'ok'], ['arb', 'arb', 'ok'], ['temp2~1', 'ok'], ['arb~2', 'arb~2', 'ok'], ['temp', 'temp', 'temp']]
    if tier != 'quick':
        out += [[a, b, c] for a in ('temp', 'arb') for b in ('temp', 'tempN', 'arb') for c in alpha]
    out = [s for s in out if s[-1] != 'tempN']   # an endless zero-delay retry never lets the clock move: excluded
    seen, res = set(), []
    for s in out:
        if tuple(s) not in seen:
            seen.add(tuple(s))
            res.append(s)
    return res


def build(carrier: str, cfg: dict, script: list[str], **kw: Any) -> Scenario:
    h = {k: v for k, v in cfg.items() if v is not None}
    st = {'persistence__consistency_timeout': 5.0}
    if carrier == 'change':
        handlers = [dict(id='c1', on='create', script=script, **h)]
        return C11Scenario(handlers=handlers, user=[(1.0, 'create', 'a')], horizon=50.0, cfg=cfg, script=script, carrier=carrier, subject='c1',
                           settings=st, **kw)
    if carrier == 'sub':
        handlers = [dict(id='p', on='create', script=['ok'])]
        return C11Scenario(handlers=handlers, subs={'p': [dict(id='s', script=script, **h)]}, user=[(1.0, 'create', 'a')], horizon=50.0,
                           cfg=cfg, script=script, carrier=carrier, subject='p/s', settings=st, **kw)
    if carrier == 'parent':
        # the limits of a PARENT whose own code succeeds but whose sub-handler keeps failing: every cycle with an unfinished child
        # is an attempt of the parent (retried after the child's delay); `script` is the child's
        handlers = [dict(id='p', on='create', script=['ok'], **h)]
        return C11Scenario(handlers=handlers, subs={'p': [dict(id='s', script=script)]}, user=[(1.0, 'create', 'a')], horizon=50.0,
                           cfg=cfg, script=script, carrier=carrier, subject='p', settings=st, **kw)
    if carrier in ('daemon+sibling', 'timer+sibling'):
        # the limits hold while ANOTHER daemon of the same object keeps running and further events of the object arrive
        subject = dict(id='dm', on='daemon', body='scripted', script=script, **h) if carrier.startswith('daemon') else \
            dict(id='tm', on='timer', interval=INTERVAL, script=script, **h)
        handlers = [subject, dict(id='sib', on='daemon', reaction='obeys')]
        return C11Scenario(handlers=handlers, user=[(1.0, 'create', 'a'), (20.0, 'status', 'a', 1), (30.0, 'label', 'a', 'l', 'v'), (40.0, 'status', 'a', 2)],
                           horizon=50.0, cfg=cfg, script=script, carrier=carrier.split('+')[0], subject=subject['id'], variant='sibling', settings=st, **kw)
    if carrier == 'daemon':
        handlers = [dict(id='dm', on='daemon', body='scripted', script=script, **h)]
        return C11Scenario(handlers=handlers, user=[(1.0, 'create', 'a')], horizon=50.0, cfg=cfg, script=script, carrier=carrier, subject='dm',
                           settings=st, **kw)
    if carrier == 'timer':
        handlers = [dict(id='tm', on='timer', interval=INTERVAL, script=script, **h)]
        return C11Scenario(handlers=handlers, user=[(1.0, 'create', 'a')], horizon=50.0, cfg=cfg, script=script, carrier=carrier, subject='tm',
                           settings=st, **kw)
    if carrier == 'timer+idle':
        # a timer that also waits for the object to be left alone (idle=2): essential edits land inside the delays between its attempts,
        # so that every retry has to wait out the idle time once more. The limits count attempts, however long they are postponed.
        handlers = [dict(id='c1', on='create', script=['ok']), dict(id='u1', on='update', script=['ok']),
                    dict(id='tm', on='timer', interval=INTERVAL, idle=2.0, script=script, **h)]
        user = [(1.0, 'create', 'a')] + [(float(t), 'spec', 'a', int(t)) for t in kw.pop('edits')]
        return C11Scenario(handlers=handlers, user=user, horizon=50.0, cfg=cfg, script=script, carrier='timer', subject='tm', variant='idle-edits',
                           settings=st, **kw)
    if carrier == 'activity':
        return ActivityScenario(cfg=cfg, script=script)
    if carrier == 'activity+sibling':
        return ActivityScenario(cfg=cfg, script=script, sibling=kw.get('sibling', ['temp1', 'temp1', 'ok']))
    raise ValueError(carrier)


def with_subs_config(sc: C11Scenario) -> C11Scenario:
    return sc


def run(tier: str, seed: int) -> CheckResult:
    cfgs, scs = configs(tier), scripts(tier)
    plain: list[Scenario] = []
    for carrier in ('change', 'sub', 'daemon', 'timer', 'activity'):
        for cfg, script in itertools.product(cfgs, scs):
            plain.append(build(carrier, cfg, script, delays=False, early_user=False, time_dev=False))
    for cfg, script in itertools.product(cfgs, (['temp', 'ok'], ['temp', 'temp', 'ok'], ['temp', 'temp', 'temp', 'temp', 'ok'], ['temp2~1', 'temp', 'ok'])):
        plain.append(build('parent', cfg, script, delays=False, early_user=False, time_dev=False))
    for cfg, script in itertools.product(cfgs, (['perm'], ['arb'], ['temp', 'perm'], ['ok'], ['temp', 'ok'])):
        plain.append(build('activity+sibling', cfg, script))
        plain.append(build('activity+sibling', cfg, script, sibling=['temp1', 'perm']))
    for carrier in ('daemon+sibling', 'timer+sibling'):
        for cfg, script in itertools.product(cfgs, (['perm'], ['arb'], ['temp', 'temp', 'temp'], ['temp', 'ok'], ['ok'])):
            plain.append(build(carrier, cfg, script, delays=False, early_user=False, time_dev=False))
    for cfg in cfgs:
        if cfg['retries'] is None and cfg['timeout'] is None:
            continue
        for script, edits in ((['temp'], (5, 9, 13)), (['temp'], (5,)), (['temp1'], (3.5, 6.5, 9.5, 12.5)), (['arb'], (4, 8, 12, 16)), (['temp', 'temp', 'ok'], (5, 9))):
            plain.append(build('timer+idle', cfg, script, edits=edits, delays=False, early_user=False, time_dev=False))
    crash = [build(carrier, cfg, script, kills=True, delays=False, early_user=False, time_dev=False)
             for carrier in ('change', 'sub')
             for cfg in [c for c in cfgs if c['backoff'] == 2.0 and c['errors'] in (None, 'PERMANENT')]
             for script in (['temp', 'ok'], ['arb', 'temp', 'ok'], ['temp', 'temp', 'temp'], ['arb', 'perm'])]
    # a handler that continues under another cause keeps its state: a resume handler in the middle of its retries
    # when the object is edited (resuming superseded by updating), for every policy configuration
    for cfg in cfgs:
        for script in (['temp', 'temp', 'ok'], ['arb', 'arb', 'ok'], ['temp', 'perm'], ['temp', 'temp', 'temp']):
            h = {k: v for k, v in cfg.items() if v is not None}
            handlers = [dict(id='c1', on='create', script=['ok']), dict(id='u1', on='update', script=['ok']),
                        dict(id='r1', on='resume', script=script, **h)]
            for t_edit in (7.0, 8.0):
                plain.append(C11Scenario(handlers=handlers, user=[(1.0, 'create', 'a'), (6.0, 'restart'), (t_edit, 'spec', 'a', 2)], horizon=50.0,
                                         cfg=cfg, script=script, carrier='change', subject='r1', variant='resume-superseded',
                                         settings={'persistence__consistency_timeout': 5.0}, delays=False, early_user=False, time_dev=False))
    # "no attempt starts later than T after the first one ... also across operator restarts": a downtime the look-ahead cannot foresee
    # pushes the next attempt behind the deadline - by a fraction of a second, by seconds, by more than a day
    for timeout, first_delay, down_at, up_at in ((2.5, 'temp1', 1.5, 3.7), (5.0, 'temp2', 2.0, 9.0), (3600.0, 'temp60', 30.0, 1.0 + 86700.0),
                                                 (2.5, 'temp1', 1.5, 3.2)):
        for carrier_on, extra in (('create', {}),):
            cfg = dict(errors=None, retries=None, timeout=timeout, backoff=None)
            handlers = [dict(id='c1', on='create', script=[first_delay, 'ok'], timeout=timeout)]
            plain.append(C11Scenario(handlers=handlers, user=[(1.0, 'create', 'a'), (down_at, 'stop'), (up_at, 'start')], horizon=up_at + 30.0,
                                     cfg=cfg, script=[first_delay, 'ok'], carrier='change', subject='c1', variant='downtime', downtime=[down_at, up_at],
                                     settings={'persistence__consistency_timeout': 5.0}, delays=False, early_user=False, time_dev=False))
    # a backoff of exactly zero is a backoff, not "unset"
    for carrier in ('change', 'daemon', 'timer'):
        for script in (['arb', 'ok'], ['arb', 'arb', 'ok'], ['temp', 'arb', 'ok']):
            for cfg in (dict(errors=None, retries=None, timeout=None, backoff=0.0), dict(errors=None, retries=3, timeout=None, backoff=0.0)):
                plain.append(build(carrier, cfg, script, delays=False, early_user=False, time_dev=False))
    # a deletion handler that takes over from a creation / update handler still waiting for its retry (the cause is superseded: the
    # old handler's leftovers are dropped, the new handler's own record must survive that)
    for cfg in cfgs:
        for script in (['temp', 'ok'], ['temp', 'temp', 'ok'], ['arb', 'temp', 'ok'], ['temp', 'perm']):
            h = {k: v for k, v in cfg.items() if v is not None}
            for waiting in ('create', 'update'):
                handlers = [dict(id='c1', on='create', script=['temp60', 'ok'] if waiting == 'create' else ['ok']),
                            dict(id='u1', on='update', script=['temp60', 'ok']), dict(id='d1', on='delete', script=script, **h)]
                user = [(1.0, 'create', 'a')] + ([(4.0, 'spec', 'a', 2)] if waiting == 'update' else []) + [(7.0, 'delete', 'a')]
                plain.append(C11Scenario(handlers=handlers, user=user, horizon=60.0, cfg=cfg, script=script, carrier='change', subject='d1',
                                         variant=f'delete-supersedes-{waiting}', settings={'persistence__consistency_timeout': 5.0},
                                         delays=False, early_user=False, time_dev=False))
    # the same laws on a ReplicaSet owned by a Deployment, where the records live under differently named annotations
    for carrier in ('change', 'sub', 'parent'):
        # (the parent's reference covers children that fail with temporary errors only)
        for cfg, script in itertools.product(cfgs, (['temp', 'ok'], ['temp', 'temp', 'temp'], ['arb', 'temp', 'ok'], ['arb', 'perm']) if carrier != 'parent' else
                                             (['temp', 'ok'], ['temp', 'temp', 'ok'], ['temp2~1', 'temp', 'ok'])):
            plain.append(build(carrier, cfg, script, rs=True, delays=False, early_user=False, time_dev=False))
    if tier == 'quick':
        groups = [('policy-product', plain, 0, 80.0), ('crash-points', crash, 1, 40.0)]
    else:
        groups = [('policy-product', plain, 0, 900.0), ('crash-points', crash, 2, 600.0)]
    stats, viols, info, nscen = run_groups(groups, seed=seed)
    return CheckResult(
        prop='C11', tier=tier, seed=seed, stats=stats, violations=viols, scenarios=nscen,
        bound_requested=max(g[2] for g in groups), extra={'groups': info, 'configs': len(cfgs), 'scripts': len(scs)},
        rule="policy product: carrier {change handler, sub-handler, parent of a failing sub-handler, daemon, timer, startup activity} x errors mode x retries {None,1,2,3} x "
             "timeout {None,5} x backoff {default 8, 2} x outcome scripts (len <= 2 quick / 3 thorough over ok/temp(3)/temp(None)/perm/arb, "
             "some with handler run time); exact agreement of (time, retry) sequences with retry_ref; crash group: kill before/after the "
             "server applied each in-flight PATCH + restart for change and sub-handlers with the statement-level laws; non-trivial = "
             "outcome differs from the default schedule of the scenario",
        assumptions=["execution.default_backoff is set to 8 virtual seconds by the harness", "timers: interval 16; a new cycle restarts retry numbering",
                     "with crashes an attempt whose record was lost may be repeated: invocations <= retries + number of crashes"])


def scenario_from(name: str, params: dict[str, Any]) -> Scenario:
    if name == 'c11-activity':
        return ActivityScenario(**params)
    return C11Scenario(**params)


def replay(rec: dict[str, Any]) -> int:
    sc = scenario_from(rec['scenario'], rec['params'])
    env = execute(sc, rec['labels'])
    viols = getattr(env, 'violations', [])
    for t, k, p in env.obs:
        if k in ('call', 'user', 'kill', 'start', 'activity'):
            print(f'{t:8.3f} {k:8s}', {kk: vv for kk, vv in p.items() if kk in ('id', 'retry', 'outcome', 'name', 'result')})
    for v in viols:
        print('VIOLATION', v.kind, v.message)
    return 1 if viols else 0
