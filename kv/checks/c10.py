"""
C10 Timer schedule laws: no self-overlap, interval/sharp/idle/initial-delay timing.

Subject: daemons._timer (the sequential loop per (object, timer) with interruptible sleeps),
aiotime.sleep, processing.process_spawning_cause (idle reset), in the closed loop.
Search: interval {None,4} x sharp x idle {None,3} x initial_delay {None,1} x handler durations
{0,1,4,6}^2 x outcomes {ok, temporary(2), arbitrary(backoff 1.5), permanent}^2 x essential edits at
chosen instants (incl. the very instant a run is due), plus a deviation-bounded search on representatives.
Oracle (`timer_laws`, exact in virtual time): runs never overlap; first start = spawn + initial delay
(postponed by idling); after a success the next start = end + interval, or the next point of the grid
counted from the previous start when sharp, postponed to (last essential change seen + idle); after a
failure = end + error delay / backoff; no start within idle after an essential change; nothing after a
permanent failure. The "essential change seen" instants are computed by the oracle from the events a
raw-event probe saw (essence differs from the last-handled state the event carries).
"""
from __future__ import annotations

import itertools
from typing import Any

from kv.explorer import Env, Scenario, Violation, execute
from kv.harness.change import ChangeScenario, essence_ref, last_handled, parse_script
from kv.runner import CheckResult, run_groups

BACKOFF = 1.5


class C10Scenario(ChangeScenario):
    name = 'c10'
    prop = 'C10'

    def check(self, env: Env) -> list[Violation]:
        out: list[Violation] = []
        if env.end_reason in ('stall', 'livelock', 'step-budget', 'deadlock'):
            return [self.viol(env, 'no-progress', f'execution ended with {env.end_reason}', end=env.end_reason)]
        t = self.params['timer']
        interval, sharp, idle, initial = t.get('interval'), t.get('sharp'), t.get('idle'), t.get('initial_delay')
        exact = not env.deviations
        runs: list[dict] = []
        resets: list[float] = []
        spawn = None
        for tt, k, p in env.obs:
            if k == 'call' and p['id'] == 'ev':
                if spawn is None:
                    spawn = tt
                if last_handled(p['raw']) != essence_ref(p['raw']) and 'deletionTimestamp' not in p['raw'].get('metadata', {}):
                    resets.append(tt)
                elif last_handled(p['raw']) != essence_ref(p['raw']):
                    resets.append(tt)
            elif k == 'call' and p['id'] == self.params.get('subject_id', 'tm'):
                if runs and runs[-1]['end'] is None:
                    out.append(self.viol(env, 'overlap', f"t={tt}: the timer started while its previous run (started {runs[-1]['start']}) had not ended", law='no-overlap'))
                runs.append({'start': tt, 'end': None, 'outcome': p['outcome'], 'retry': p['retry']})
            elif k == 'ret' and p['id'] == self.params.get('subject_id', 'tm'):
                for r in reversed(runs):
                    if r['end'] is None:
                        r['end'] = tt
                        break
        if spawn is None or self.params.get('overlap_only'):
            return out      # filter toggles re-spawn the timer: only "never overlaps with itself" is judged there
        if not resets or resets[0] != spawn:
            resets.insert(0, spawn)
        horizon = self.horizon

        def postpone(b: float, strict: bool = False) -> float:
            """Idling: the earliest instant >= b that is >= (latest change seen by then) + idle.
            A change processed in the very instant the timer wakes up may be seen or not (strict)."""
            if idle is None:
                return b
            tcur = b
            for _ in range(50):
                seen = [r for r in resets if (r < tcur if strict else r <= tcur)]
                need = (max(seen) + idle) if seen else tcur
                if need <= tcur:
                    return tcur
                tcur = need
            return tcur

        # L3: no start within the idle time after a change the operator had seen
        if idle is not None:
            for r in runs:
                for rs in resets:
                    if rs < r['start'] < rs + idle:
                        out.append(self.viol(env, 'start-while-idle-pending', f"timer started at {r['start']} within idle={idle} after the essential change seen at {rs}",
                                             law='idle'))
        if self.params.get('idle_law_only'):
            # a timer (re)spawned by a filter change next to a sibling: only the idle law (and no-overlap) is judged; the change
            # that spawned it is a change it has certainly seen
            subj = next(h for h in self.params['handlers'] if h['id'] == self.params.get('subject_id', 'tm'))
            match_t = next((tt for tt, k, p in env.obs if k == 'call' and p['id'] == 'ev'
                            and all(((p['raw'].get('metadata') or {}).get('labels') or {}).get(a) == b for a, b in (subj.get('labels') or {}).items())), None)
            if idle is not None and match_t is not None and runs and runs[0]['start'] < match_t + idle:
                out.append(self.viol(env, 'start-while-idle-pending', f"timer {subj['id']} was spawned by the change seen at {match_t} and started at {runs[0]['start']}, "
                                                                      f"within idle={idle} of it", law='idle', at='spawn'))
            return out
        # L1: the first run
        first_due = postpone(spawn + (initial or 0.0))
        if runs:
            if runs[0]['start'] < spawn + (initial or 0.0):
                out.append(self.viol(env, 'first-start-early', f"first start {runs[0]['start']} < spawn {spawn} + initial_delay {initial}", law='initial-delay'))
            elif exact and runs[0]['start'] not in (first_due, postpone(spawn + (initial or 0.0), strict=True)):
                out.append(self.viol(env, 'first-start-wrong', f"first start {runs[0]['start']}, the laws say {first_due} (spawn {spawn}, initial_delay {initial}, idle {idle}, changes {resets})",
                                     law='initial-delay', direction='late' if runs[0]['start'] > first_due else 'early'))
        elif exact and first_due < horizon - 0.5:
            out.append(self.viol(env, 'never-started', f"the timer never ran; the laws say first start at {first_due}", law='initial-delay'))
        # L2/L4: consecutive runs
        for i, r in enumerate(runs):
            if r['end'] is None:
                continue
            kind = r['outcome'].split(',')[0].split('~')[0]
            nxt = runs[i + 1] if i + 1 < len(runs) else None
            s, e = r['start'], r['end']
            if kind == 'perm':
                if nxt is not None:
                    out.append(self.viol(env, 'run-after-permanent-failure', f"timer ran again at {nxt['start']} after failing permanently at {e}", law='permanent'))
                break
            if kind == 'ok':
                if interval is None and idle is None:
                    base = None                       # a one-shot timer
                elif interval is None:
                    base = 'idle-only'
                elif sharp:
                    n = int((e - s) // interval) + 1
                    base = s + n * interval
                else:
                    base = e + interval
            elif kind.startswith('temp'):
                d = float(r['outcome'].split('delay=')[1].split(',')[0]) if 'delay=' in r['outcome'] else 0.0
                base = e + d
            else:
                base = e + float(self.params.get('backoff', BACKOFF))
            if base is None:
                if nxt is not None:
                    out.append(self.viol(env, 'one-shot-repeated', f"a timer without interval and idle ran again at {nxt['start']}", law='one-shot'))
                break
            if base == 'idle-only':
                later = [rs for rs in resets if rs > s]
                if nxt is not None:
                    if not later or nxt['start'] < min(later) + idle:
                        out.append(self.viol(env, 'idle-only-early', f"idle-only timer ran at {nxt['start']} although the changes after its previous start {s} are {later}", law='idle'))
                continue
            due = postpone(base)
            if nxt is None:
                if exact and due < horizon - 0.5:
                    out.append(self.viol(env, 'missing-run', f"after the run [{s},{e}] ({kind}) the laws say the next start at {due}; none happened", law='next-start'))
                continue
            if nxt['start'] < base:
                out.append(self.viol(env, 'next-start-early', f"after the run [{s},{e}] ({kind}) the next start {nxt['start']} is earlier than {base} "
                                                              f"(interval {interval}, sharp {sharp})", law='next-start', after=kind.rstrip('0123456789.N')))
            elif exact and nxt['start'] not in (due, postpone(base, strict=True)):
                out.append(self.viol(env, 'next-start-wrong', f"after the run [{s},{e}] ({kind}) the next start is {nxt['start']}, the laws say {due} "
                                                              f"(interval {interval}, sharp {sharp}, idle {idle}, changes {resets})",
                                     law='next-start', after=kind.rstrip('0123456789.N'), direction='late' if nxt['start'] > due else 'early'))
            if sharp and kind == 'ok' and exact and idle is None and ((nxt['start'] - s) / interval) % 1 != 0:
                out.append(self.viol(env, 'off-grid', f"sharp timer: start {nxt['start']} is not on the grid of {s} + n*{interval}", law='sharp'))
        return out


def timer_configs() -> list[dict]:
    out = []
    for interval, sharp, idle, initial in itertools.product([None, 4.0], [False, True], [None, 3.0], [None, 1.0]):
        if sharp and interval is None:
            continue
        d: dict[str, Any] = {}
        if interval is not None:
            d['interval'] = interval
        if sharp:
            d['sharp'] = True
        if idle is not None:
            d['idle'] = idle
        if initial is not None:
            d['initial_delay'] = initial
        out.append(d)
    return out


def build(tcfg: dict, script: list[str], edits: tuple[float, ...], **kw: Any) -> C10Scenario:
    handlers = [dict(id='ev', on='event', script=['ok']), dict(id='c1', on='create', script=['ok']), dict(id='u1', on='update', script=['ok']),
                dict(id='tm', on='timer', script=script, backoff=kw.get('backoff', BACKOFF), **tcfg)]
    user: list[tuple] = [(1.0, 'create', 'a')]
    for i, te in enumerate(edits):
        user.append((te, 'spec', 'a', 10 + i))
    return C10Scenario(handlers=handlers, user=user, horizon=kw.pop('horizon', 40.0), timer=tcfg, script=script, edits=list(edits),
                       settings={'persistence__consistency_timeout': 5.0}, **kw)


def build_toggle(tcfg: dict, off: float, on: float, **kw: Any) -> C10Scenario:
    """A label-filtered timer with slow runs whose object stops and starts matching again while a run is going on."""
    handlers = [dict(id='ev', on='event', script=['ok']),
                dict(id='tm', on='timer', script=['ok~3', 'ok~3', 'ok~3', 'ok'], backoff=BACKOFF, labels={'on': 'yes'}, **tcfg)]
    user: list[tuple] = [(1.0, 'createl', 'a', 'on', 'yes'), (off, 'label', 'a', 'on', 'no'), (on, 'label', 'a', 'on', 'yes')]
    return C10Scenario(handlers=handlers, user=user, horizon=30.0, timer=tcfg, script=['ok~3'], edits=[off, on], overlap_only=True,
                       settings={'persistence__consistency_timeout': 5.0}, **kw)


def build_siblings(idle: float, flip_at: float, sibling: str, **kw: Any) -> C10Scenario:
    """Two spawned handlers filtered on mode=a / mode=b; the label flips long after the previous change: the idle timer of mode=b is
    spawned in the very cycle in which its sibling is stopped, and must still respect the idle time after this change."""
    sib = dict(id='ta', on='timer', interval=4.0, script=['ok'], labels={'mode': 'a'}) if sibling == 'timer' else \
        dict(id='da', on='daemon', reaction='obeys', exit_delay=1.0, labels={'mode': 'a'})
    tcfg = dict(idle=idle, interval=4.0)
    handlers = [dict(id='ev', on='event', script=['ok']), sib,
                dict(id='tb', on='timer', script=['ok'], backoff=BACKOFF, labels={'mode': 'b'}, **tcfg)]
    user: list[tuple] = [(1.0, 'createl', 'a', 'mode', 'a'), (flip_at, 'label', 'a', 'mode', 'b')]
    return C10Scenario(handlers=handlers, user=user, horizon=flip_at + 25.0, timer=tcfg, script=['ok'], edits=[flip_at], subject_id='tb', idle_law_only=True,
                       settings={'persistence__consistency_timeout': 5.0}, **kw)


def scripts(tier: str) -> list[list[str]]:
    durs = ['', '~1', '~4', '~6']
    kinds = ['ok', 'temp2', 'arb', 'perm']
    out = []
    for (k1, d1), (k2, d2) in itertools.product(itertools.product(kinds, durs), repeat=2):
        if tier == 'quick' and (d1, d2) not in (('', ''), ('~1', ''), ('~4', '~1'), ('~6', ''), ('', '~6'), ('~1', '~4')):
            continue
        if k1 == 'perm' and (k2, d2) != ('ok', ''):
            continue
        out.append([k1 + d1, k2 + d2, 'ok'])
    return out


def run(tier: str, seed: int) -> CheckResult:
    edit_sets: list[tuple[float, ...]] = [(), (2.5,), (5.0,), (2.5, 9.0)] if tier == 'quick' else [(), (2.5,), (5.0,), (6.0,), (2.5, 9.0), (5.0, 5.0), (13.0,)]
    plain = [build(t, s, e, delays=False, early_user=False, time_dev=False)
             for t in timer_configs() for s in scripts(tier) for e in edit_sets]
    # "after a failed run it starts after ... the handler's backoff": a backoff of zero is a backoff
    plain += [build(t, s, e, backoff=0.0, delays=False, early_user=False, time_dev=False)
              for t in (dict(interval=4.0), dict(interval=4.0, sharp=True), dict(interval=4.0, idle=3.0))
              for s in (['arb', 'ok', 'ok'], ['arb~1', 'arb', 'ok'], ['ok', 'arb', 'ok']) for e in ((), (2.5,))]
    # schedules at the scale of days (one sleep longer than a day)
    DAY = 86400.0
    plain += [build(t, s, e, horizon=h, delays=False, early_user=False, time_dev=False)
              for t, h in ((dict(interval=2 * DAY), 5 * DAY), (dict(interval=3 * DAY, sharp=True), 7 * DAY), (dict(interval=4.0, initial_delay=1.5 * DAY), 1.5 * DAY + 30),
                           (dict(interval=2 * DAY, idle=1.25 * DAY), 5 * DAY), (dict(idle=1.5 * DAY), 4 * DAY))
              for s in (['ok', 'ok', 'ok'], ['ok~1', 'temp2', 'ok']) for e in ((), (2.5,))]
    plain += [build_siblings(idle, flip, sib, delays=False, early_user=False, time_dev=False)
              for idle in (3.0, 6.0) for flip in (12.0, 20.0) for sib in ('timer', 'daemon')]
    plain += [build_toggle(t, off, off + d, delays=False, early_user=False, time_dev=False)
              for t in (dict(interval=1.5), dict(interval=1.5, sharp=True), dict(interval=4.0, idle=1.0), dict(idle=2.0))
              for off in (2.0, 3.0, 4.0, 6.0) for d in (0.5, 1.0, 2.5)]
    reps = [build(t, s, e, grid=1.0) for t in timer_configs() for s in (['ok~1', 'ok', 'ok'], ['temp2', 'ok~4', 'ok']) for e in [(2.5,), (5.0,)]]
    reps += [build_toggle(dict(interval=1.5), 2.0, 3.0, grid=1.0)]
    if tier == 'quick':
        groups = [('schedule-product', plain, 0, 70.0), ('timing', reps, 1, 40.0)]
    else:
        groups = [('schedule-product', plain, 0, 800.0), ('timing', reps, 2, 600.0)]
    stats, viols, info, nscen = run_groups(groups, seed=seed)
    return CheckResult(
        prop='C10', tier=tier, seed=seed, stats=stats, violations=viols, scenarios=nscen,
        bound_requested=max(g[2] for g in groups), extra={'groups': info, 'timer_configs': len(timer_configs()), 'scripts': len(scripts(tier))},
        rule="schedule product: timer config (interval {None,4} x sharp x idle {None,3} x initial_delay {None,1}; 12 configs) x scripts of 2 runs "
             "over outcomes {ok, temporary(2), arbitrary(backoff 1.5), permanent} x durations {0,1,4(=interval),6(>interval)} (quick: 6 duration "
             "pairs) x essential edits at {none, 2.5, 5.0 (the instant a run is due), 2.5+9.0}; plus a label-filtered timer with 3 s runs whose object stops and "
             "starts matching again at 12 (off, on) instants inside/around a run (only the no-overlap law is judged there); exact equality with timer_laws in default "
             "timing; timing group: deviation-bounded search with a 1.0 clock grid where only the inequality laws are demanded; "
             "non-trivial = outcome differs from the scenario's default schedule",
        assumptions=["an 'essential change seen by the operator' = a processed event whose essence differs from the last-handled state it carries "
                     "(computed by the oracle from a raw-event probe, not read from kopf)",
                     "all durations are dyadic so that float arithmetic is exact and equalities can be asserted"])


def scenario_from(name: str, params: dict[str, Any]) -> Scenario:
    return C10Scenario(**params)


def replay(rec: dict[str, Any]) -> int:
    sc = scenario_from(rec['scenario'], rec['params'])
    env = execute(sc, rec['labels'])
    viols = getattr(env, 'violations', [])
    for t, k, p in env.obs:
        if k in ('call', 'ret', 'user') and p.get('id') in ('tm', 'ev', None):
            print(f'{t:8.3f} {k:6s}', {kk: vv for kk, vv in p.items() if kk in ('id', 'retry', 'outcome', 'name', 'rv')})
    for v in viols:
        print('VIOLATION', v.kind, v.message)
    return 1 if viols else 0
