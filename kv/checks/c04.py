"""
C04 Change detection is exact: own writes invisible, diffs sound and complete.

(i)  State-graph search: states are object bodies; transitions are the REAL framework write operations
     (progress store/purge/touch, diff-base store, finalizer block/allow, result delivery) applied the
     way the server applies them (independent RFC 7386 merge); invariant on every edge and for every
     storage configuration: the essence the operator computes is unchanged - and (ii) so is the essence
     computed by ANOTHER Kopf operator with a different storage configuration (no ping-pong).
(iii) Completeness: every single-field mutation of spec / other payload / labels / ordinary annotations
     changes the essence; status and system metadata never do.
(iv) Diff laws over all pairs of small bodies: applying diff(a,b) to a yields b; diff is empty iff a and
     b are JSON-equal (a null-valued member counts as absent); reduction to a field path agrees with the
     diff of the resolved sub-values.
"""
from __future__ import annotations

import copy
import itertools
import json
from typing import Any, Iterable

import kopf
from kopf._cogs.configs import diffbase, progress
from kopf._cogs.structs import bodies, dicts, diffs, finalizers, patches
from kopf._core.actions import execution, progression

from kv.explorer import Stats, Violation
from kv.ref import rfc6902, rfc7386
from kv.runner import CheckResult
from kv.world import normalise

FINALIZER = 'kopf.zalando.org/KopfFinalizerMarker'
LONG_PREFIX = ('x' * 60 + '.') * 3 + 'example.com'   # 190+ chars


class Cfg:
    def __init__(self, name: str, prog: progress.ProgressStorage, base: diffbase.DiffBaseStorage, extra: tuple[str, ...] = ()) -> None:
        self.name, self.prog, self.base, self.extra = name, prog, base, tuple(extra)

    def essence(self, raw: dict) -> Any:
        body = bodies.Body(raw)
        new = self.base.build(body=body, extra_fields=list(self.extra))
        return self.prog.clear(essence=new)

    def stored(self, raw: dict) -> Any:
        old = self.base.fetch(body=bodies.Body(raw))
        return self.prog.clear(essence=old) if old is not None else None


def configs(tier: str) -> list[Cfg]:
    out = [Cfg('default', progress.SmartProgressStorage(), diffbase.AnnotationsDiffBaseStorage())]
    for prefix in ['my-op.example.com', 'kopf.dev', LONG_PREFIX]:
        for v1 in (True, False):
            if not v1 and prefix != 'my-op.example.com' and tier == 'quick':
                continue
            out.append(Cfg(f'annotations[{prefix[:20]},v1={v1}]',
                           progress.AnnotationsProgressStorage(prefix=prefix, v1=v1),
                           diffbase.AnnotationsDiffBaseStorage(prefix=prefix, v1=v1)))
    out.append(Cfg('status', progress.StatusProgressStorage(), diffbase.StatusDiffBaseStorage()))
    out.append(Cfg('status[name=op2]', progress.StatusProgressStorage(name='op2'), diffbase.StatusDiffBaseStorage(name='op2')))
    out.append(Cfg('multi', progress.MultiProgressStorage([progress.AnnotationsProgressStorage(prefix='multi.example.com'),
                                                           progress.StatusProgressStorage(name='multi')]),
                   diffbase.MultiDiffBaseStorage([diffbase.AnnotationsDiffBaseStorage(prefix='multi.example.com'),
                                                  diffbase.StatusDiffBaseStorage(name='multi')])))
    return out


def configs_with_fields(tier: str) -> list[Cfg]:
    """Operators with a handler on a field that the framework's own records live in or under (`field='status'`,
    `field='metadata.annotations'`): the field is restored into the essence, the own records in it must still be invisible."""
    def multi(order: str) -> diffbase.MultiDiffBaseStorage:
        parts = {'a': diffbase.AnnotationsDiffBaseStorage(prefix='multi.example.com'), 's': diffbase.StatusDiffBaseStorage(name='multi')}
        return diffbase.MultiDiffBaseStorage([parts[c] for c in order])

    def multiprog() -> progress.MultiProgressStorage:
        return progress.MultiProgressStorage([progress.AnnotationsProgressStorage(prefix='multi.example.com'), progress.StatusProgressStorage(name='multi')])
    out = [Cfg('default+field[metadata.annotations]', progress.SmartProgressStorage(), diffbase.AnnotationsDiffBaseStorage(), extra=('metadata.annotations',)),
           Cfg('default+field[status]', progress.SmartProgressStorage(), diffbase.AnnotationsDiffBaseStorage(), extra=('status',)),
           Cfg('status+field[status]', progress.StatusProgressStorage(), diffbase.StatusDiffBaseStorage(), extra=('status',)),
           Cfg('multi[annotations,status]+field[status]', multiprog(), multi('as'), extra=('status',)),
           Cfg('multi[status,annotations]+field[status]', multiprog(), multi('sa'), extra=('status',)),
           Cfg('multi[status,annotations]+field[metadata.annotations]', multiprog(), multi('sa'), extra=('metadata.annotations',)),
           Cfg('multi[annotations,status]+field[metadata.annotations]', multiprog(), multi('as'), extra=('metadata.annotations',))]
    return out


def seeds() -> list[dict]:
    meta = {'name': 'a', 'namespace': 'ns', 'uid': 'u1', 'resourceVersion': '5', 'creationTimestamp': '2030-01-01T00:00:00Z'}
    return [
        {'apiVersion': 'kopf.dev/v1', 'kind': 'KopfExample', 'metadata': dict(meta)},
        {'apiVersion': 'kopf.dev/v1', 'kind': 'KopfExample', 'metadata': dict(meta, labels={'l': 'v'}, annotations={'user/a': 'ü', 'plain': '', **LOOKALIKE}),
         'spec': {'x': 1, 'nested': {'e': {}, 'n': [], 'z': 0, 'f': False}}, 'status': {'s': 1}},
        {'apiVersion': 'apps/v1', 'kind': 'ReplicaSet', 'metadata': dict(meta, ownerReferences=[{'kind': 'Deployment', 'name': 'd', 'uid': 'x'}]),
         'spec': {'replicas': 1}},
        {'apiVersion': 'v1', 'kind': 'ConfigMap', 'metadata': dict(meta, finalizers=['other/fin']), 'data': {'k': 'v'}},
    ]


# ordinary annotations whose keys merely begin like a storage prefix (no '/' boundary): user data, essential
LOOKALIKE = {'kopf.zalando.org.uk/region': 'eu', 'my-op.example.com.au/region': 'au', 'kopf.devel/owner': 'me', 'multi.example.community/x': 'y'}

HANDLER_IDS = ['h1', 'parent/sub', 'fn/spec.field', 'h' * 70]


def records() -> list[progress.ProgressRecord]:
    import datetime
    import asyncio
    return [
        progress.ProgressRecord(started='2030-01-01T00:00:00.000000+00:00', stopped=None, delayed='2030-01-01T00:01:00.000000+00:00',
                                purpose='create', retries=1, success=False, failure=False, message='tëmp ✓', subrefs=None),
        progress.ProgressRecord(started='2030-01-01T00:00:00.000000+00:00', stopped='2030-01-01T00:00:01.000000+00:00', delayed=None,
                                purpose='update', retries=2, success=True, failure=False, message=None, subrefs=['parent/sub']),
    ]


def apply_patch(raw: dict, patch: patches.Patch) -> dict:
    """What the server makes of an accumulated patch: merge-patch, then the transformations."""
    merged = rfc7386.strip_nulls(rfc7386.merge(raw, dict(patch)))
    for fn in patch.fns:
        fn(merged)
    return normalise(merged)


def operations(cfg: Cfg) -> list[tuple[str, Any]]:
    ops: list[tuple[str, Any]] = []
    for hid in HANDLER_IDS:
        for i, rec in enumerate(records()):
            ops.append((f'store({hid[:12]},{i})', lambda body, patch, hid=hid, rec=rec: cfg.prog.store(key=hid, record=rec, body=body, patch=patch)))
        ops.append((f'purge({hid[:12]})', lambda body, patch, hid=hid: cfg.prog.purge(key=hid, body=body, patch=patch)))
    ops.append(('touch(v)', lambda body, patch: cfg.prog.touch(body=body, patch=patch, value='2030-01-01T00:00:05')))
    ops.append(('touch(None)', lambda body, patch: cfg.prog.touch(body=body, patch=patch, value=None)))
    ops.append(('diffbase.store', lambda body, patch: cfg.base.store(body=body, patch=patch, essence=cfg.essence(dict(body)))))
    ops.append(('block', lambda body, patch: patch.fns.append(lambda b: finalizers.block_deletion(b, finalizer=FINALIZER))))
    ops.append(('allow', lambda body, patch: patch.fns.append(lambda b: finalizers.allow_deletion(b, finalizer=FINALIZER))))
    ops.append(('result(dict)', lambda body, patch: progression.deliver_results(
        outcomes={'h1': execution.Outcome(final=True, result={'k': 'v'})}, patch=patch)))  # type: ignore[dict-item]
    ops.append(('result(scalar)', lambda body, patch: progression.deliver_results(
        outcomes={'h1': execution.Outcome(final=True, result='done')}, patch=patch)))  # type: ignore[dict-item]
    return ops


def canon(x: Any) -> str:
    return json.dumps(x, sort_keys=True, ensure_ascii=False)


def own_writes(tier: str, stats: Stats) -> list[Violation]:
    viols: dict[str, Violation] = {}
    depth = 2 if tier == 'quick' else 3
    plain = configs(tier)
    cfgs = plain + configs_with_fields(tier)
    for cfg in cfgs:
        # (an operator that watches a whole stanza sees what OTHERS write there - that is what its user asked for: such
        # configurations are judged as observers of their own writes only; handler results are the user's own data in status)
        observers = plain + ([cfg] if cfg.extra else [])
        ops = [(n, f) for n, f in operations(cfg) if not (cfg.extra and 'status' in cfg.extra and n.startswith('result('))]
        frontier = [s for s in seeds()]
        seen = {canon(s) for s in frontier}
        for d in range(depth):
            nxt = []
            for raw in frontier:
                ess_before = {o.name: canon(o.essence(raw)) for o in observers}
                for name, op in ops:
                    body = bodies.Body(copy.deepcopy(raw))
                    patch = patches.Patch(body=body)
                    op(body, patch)
                    raw2 = apply_patch(raw, patch)
                    stats.executions += 1
                    k2 = canon(raw2)
                    stats.transitions.add(hash((cfg.name, canon(raw), name, k2)))
                    if k2 != canon(raw):
                        stats.nontrivial.add(hash((cfg.name, name, k2)))
                    for o in observers:
                        e2 = canon(o.essence(raw2))
                        if e2 != ess_before[o.name]:
                            who = 'self' if o is cfg else 'other-operator'
                            v = Violation('C04', 'own-write-visible',
                                          f"[{cfg.name}] {name} changes the essence seen by {who} [{o.name}]: {ess_before[o.name]} -> {e2}",
                                          dict(kind='own-write-visible', who=who, writer=cfg.name, observer=o.name if who != 'self' else 'self',
                                               op=name.split('(')[0]),
                                          scenario='own-writes', labels=None)  # type: ignore[arg-type]
                            viols.setdefault(v.key(), v)
                    # the stored last-handled state: written by diffbase.store only, and then equal to the essence
                    # (otherwise the operator's own closing write is the next "change": handling triggers itself)
                    st1, st2 = canon(cfg.stored(raw)), canon(cfg.stored(raw2))
                    if name == 'diffbase.store' and st2 != canon(cfg.essence(raw2)):
                        v = Violation('C04', 'self-trigger',
                                      f"[{cfg.name}] {raw.get('kind')}: after diffbase.store the stored last-handled state reads {st2}, "
                                      f"the essence is {canon(cfg.essence(raw2))}: the next event is a change again",
                                      dict(kind='self-trigger', writer=cfg.name, objkind=raw.get('kind')), scenario='own-writes', labels=None)  # type: ignore[arg-type]
                        viols.setdefault(v.key(), v)
                    if name != 'diffbase.store' and st1 != st2:
                        v = Violation('C04', 'last-handled-disturbed',
                                      f"[{cfg.name}] {raw.get('kind')}: {name} changes the stored last-handled state {st1} -> {st2}",
                                      dict(kind='last-handled-disturbed', writer=cfg.name, op=name.split('(')[0]), scenario='own-writes', labels=None)  # type: ignore[arg-type]
                        viols.setdefault(v.key(), v)
                    if k2 not in seen:
                        seen.add(k2)
                        nxt.append(raw2)
                        stats.states.add(hash((cfg.name, k2)))
            frontier = nxt
        if len(stats.samples) < 3:
            stats.samples.append({'config': cfg.name, 'reachable_bodies': len(seen), 'ops': [n for n, _ in ops][:8]})
    return list(viols.values())


def completeness(tier: str, stats: Stats) -> list[Violation]:
    viols: dict[str, Violation] = {}
    essential = [
        ('spec.x changed', lambda o: o.setdefault('spec', {}).__setitem__('x', 99)),
        ('spec.new added', lambda o: o.setdefault('spec', {}).__setitem__('new', {})),
        ('spec.nested.z 0->False', lambda o: o.setdefault('spec', {}).setdefault('nested', {}).__setitem__('z', False) if o.get('spec', {}).get('nested', {}).get('z') == 0 else o.setdefault('spec', {}).__setitem__('zz', False)),
        ('payload field', lambda o: o.__setitem__('data', {'k': 'changed'})),
        ('label added', lambda o: o['metadata'].setdefault('labels', {}).__setitem__('new', 'v')),
        ('label emptied', lambda o: o['metadata'].setdefault('labels', {}).__setitem__('l', '')),
        ('annotation added', lambda o: o['metadata'].setdefault('annotations', {}).__setitem__('user/new', 'v')),
        ('annotation changed', lambda o: o['metadata'].setdefault('annotations', {}).__setitem__('plain', 'x')),
        *[(f'look-alike annotation {k} changed', (lambda o, k=k: o['metadata']['annotations'].__setitem__(k, 'changed') if k in (o['metadata'].get('annotations') or {}) else None))
          for k in LOOKALIKE],
    ]
    inessential = [
        ('status changed', lambda o: o.setdefault('status', {}).__setitem__('s', 2)),
        ('status added', lambda o: o.__setitem__('status', {'new': {'deep': [1]}})),
        ('resourceVersion', lambda o: o['metadata'].__setitem__('resourceVersion', '6')),
        ('generation', lambda o: o['metadata'].__setitem__('generation', 3)),
        ('managedFields', lambda o: o['metadata'].__setitem__('managedFields', [{'manager': 'kubectl'}])),
        ('finalizers', lambda o: o['metadata'].__setitem__('finalizers', ['x/y'])),
        ('deletionTimestamp', lambda o: o['metadata'].__setitem__('deletionTimestamp', '2030-01-01T00:00:09Z')),
        ('ownerReferences', lambda o: o['metadata'].__setitem__('ownerReferences', [{'kind': 'X', 'name': 'y', 'uid': 'z'}])),
    ]
    for cfg in configs(tier):
        for raw in seeds():
            e0 = canon(cfg.essence(raw))
            for name, fn in essential + inessential:
                o = copy.deepcopy(raw)
                fn(o)
                if canon(o) == canon(raw):
                    continue
                e1 = canon(cfg.essence(o))
                stats.executions += 1
                stats.transitions.add(hash(('mut', cfg.name, canon(raw), name)))
                want_change = (name, fn) in essential
                if want_change:
                    stats.nontrivial.add(hash((cfg.name, name, e1)))
                if (e1 != e0) != want_change:
                    v = Violation('C04', 'essence-incomplete' if want_change else 'essence-too-wide',
                                  f"[{cfg.name}] mutation '{name}' of {raw['kind']}: essence {'did not change' if want_change else 'changed'}: {e0} -> {e1}",
                                  dict(kind='essence', mutation=name, config=cfg.name), scenario='completeness', labels=None)  # type: ignore[arg-type]
                    viols.setdefault(v.key(), v)
    return list(viols.values())


# ---- diff laws ------------------------------------------------------------------------------------

def json_eq_nullabsent(a: Any, b: Any) -> bool:
    """JSON equality where a null-valued member of a mapping is the same as an absent member."""
    if isinstance(a, dict) and isinstance(b, dict):
        ka = {k for k, v in a.items() if v is not None}
        kb = {k for k, v in b.items() if v is not None}
        return ka == kb and all(json_eq_nullabsent(a[k], b[k]) for k in ka)
    if isinstance(a, dict) or isinstance(b, dict):
        return False
    return rfc6902.json_equal(a, b)


def apply_diff(a: Any, d: Iterable[Any]) -> Any:
    res = json.loads(json.dumps(a))
    for op, path, old, new in d:
        if not path:
            res = copy.deepcopy(new) if str(op) != 'remove' else None
            continue
        if not isinstance(res, dict):
            res = {}
        cur = res
        for key in path[:-1]:
            if not isinstance(cur.get(key), dict):
                cur[key] = {}
            cur = cur[key]
        if str(op) == 'remove':
            cur.pop(path[-1], None)
        else:
            cur[path[-1]] = copy.deepcopy(new)
    return res


def universe(tier: str) -> list[Any]:
    v0: list[Any] = [None, {}, [], 0, False, 1, True, '', 'ü']
    d1 = []
    for va, vb in itertools.product(['-'] + v0, repeat=2):
        d: dict[str, Any] = {}
        if va != '-':
            d['a'] = va
        if vb != '-':
            d['b'] = vb
        d1.append(d)
    inner = [None, 0, True, 'ü', {}] + [d for d in d1 if set(d) <= {'a'}]
    d2 = []
    for va, vb in itertools.product(['-'] + inner, repeat=2):
        d = {}
        if va != '-':
            d['a'] = va
        if vb != '-':
            d['b'] = vb
        d2.append(d)
    out = v0 + d1 + d2
    if tier != 'quick':
        deep = [{'a': {'a': x}} for x in d1[:40]] + [{'a': {'b': {'a': v}}, 'b': v} for v in v0]
        out = out + deep
    uniq = {}
    for x in out:
        uniq.setdefault(canon(x) + repr(type(x)) + ('B' if isinstance(x, bool) else ''), x)
    # canon() maps True/1 to different strings already (true vs 1), keep all
    return [json.loads(json.dumps(x)) for x in uniq.values()]   # de-alias shared sub-objects


def list_universe() -> list[Any]:
    """Lists (compared as wholes by the diff): prefixes of each other, permutations, nested, with near-equal scalars."""
    L: list[Any] = [[], [1], [1, 2], [1, 2, 3], [2, 1], [[1]], [[1], [2]], [[1, 2]], [{'a': 1}], [{'a': 1}, {'a': 2}], [{'a': 1, 'b': None}],
                    [0], [False], [None], ['']]
    out: list[Any] = list(L)
    out += [{'a': x} for x in L] + [{'a': x, 'b': 1} for x in L[:6]] + [{'a': {'a': x}} for x in L[:8]]
    return [json.loads(json.dumps(x)) for x in out]


def diff_laws(tier: str, stats: Stats) -> list[Violation]:
    viols: dict[str, Violation] = {}
    uni = universe(tier)
    lists = list_universe()
    paths = [(), ('a',), ('b',), ('a', 'a'), ('a', 'b'), ('b', 'a')]
    for a, b in itertools.chain(itertools.product(uni, repeat=2), itertools.product(lists, repeat=2)):
        d = diffs.diff(a, b)
        stats.executions += 1
        stats.states.add(hash(canon(a)))
        equal = json_eq_nullabsent(a, b) or (a is None and b is None)
        if (len(d) == 0) != equal:
            cls = 'bool-vs-number' if _has_bool_number_confusion(a, b) else 'other'
            v = Violation('C04', 'diff-emptiness', f"diff({a!r}, {b!r}) = {tuple(d)!r} but the values are {'equal' if equal else 'different'} as JSON",
                          dict(kind='diff-emptiness', cls=cls), scenario='diff-laws', labels=None)  # type: ignore[arg-type]
            viols.setdefault(v.key(), v)
        else:
            if len(d):
                stats.nontrivial.add(hash((canon(a), canon(b))))
            applied = apply_diff(a, d)
            if not (json_eq_nullabsent(applied, b) or (applied is None and b is None)):
                v = Violation('C04', 'diff-unsound', f"applying diff({a!r}, {b!r}) = {tuple(d)!r} to the old value gives {applied!r}, not the new value",
                              dict(kind='diff-unsound'), scenario='diff-laws', labels=None)  # type: ignore[arg-type]
                viols.setdefault(v.key(), v)
        if isinstance(a, dict) and isinstance(b, dict):
            for path in paths[1:]:
                try:
                    ra = dicts.resolve(a, path, None)
                    rb = dicts.resolve(b, path, None)
                    red = diffs.reduce(d, path)
                except Exception as e:
                    v = Violation('C04', 'reduce-raises', f"reduce(diff({a!r},{b!r}), {path}) raised {e!r}",
                                  dict(kind='reduce-raises', exc=type(e).__name__), scenario='diff-laws', labels=None)  # type: ignore[arg-type]
                    viols.setdefault(v.key(), v)
                    continue
                stats.executions += 1
                direct_equal = json_eq_nullabsent(ra, rb) or (ra is None and rb is None)
                if _has_bool_number_confusion(a, b):
                    continue   # reported once by the emptiness law
                if (len(red) == 0) != direct_equal:
                    v = Violation('C04', 'reduce-emptiness', f"reduce(diff({a!r},{b!r}), {path}) = {tuple(red)!r} but the field values {ra!r} / {rb!r} are "
                                                             f"{'equal' if direct_equal else 'different'}",
                                  dict(kind='reduce-emptiness'), scenario='diff-laws', labels=None)  # type: ignore[arg-type]
                    viols.setdefault(v.key(), v)
                elif len(red):
                    applied = apply_diff(ra, red)
                    if not (json_eq_nullabsent(applied, rb) or (applied is None and rb is None)):
                        v = Violation('C04', 'reduce-unsound', f"reduce(diff({a!r},{b!r}), {path}) = {tuple(red)!r} applied to {ra!r} gives {applied!r}, not {rb!r}",
                                      dict(kind='reduce-unsound'), scenario='diff-laws', labels=None)  # type: ignore[arg-type]
                        viols.setdefault(v.key(), v)
    if len(stats.samples) < 6:
        stats.samples.append({'diff_universe': len(uni), 'pairs': len(uni) ** 2, 'example': [uni[5], uni[-1]]})
    return list(viols.values())


def _has_bool_number_confusion(a: Any, b: Any) -> bool:
    """Do a and b differ (as JSON) only by bool-vs-number where Python says 1 == True / 0 == False?"""
    if isinstance(a, dict) and isinstance(b, dict):
        return a.keys() == b.keys() and a == b and not json_eq_nullabsent(a, b)
    if isinstance(a, (dict, list)) or isinstance(b, (dict, list)):
        return a == b and not rfc6902.json_equal(a, b)
    return a == b and isinstance(a, bool) != isinstance(b, bool)


def essence_is_about_the_object(tier: str, stats: Stats) -> list[Violation]:
    """The essence of an object (and what is stored / fetched as its last-handled state) is a function of THAT object and the configuration:
    it does not depend on which other objects the same long-lived storage has served before (a ReplicaSet of a Deployment, an object that
    carries another Kopf-based operator's marker). The differential search lives in C16 (one instance vs. fresh ones); here it runs on the
    diff-base operations only."""
    from kv.checks.c16 import sharing_check
    return sharing_check(tier, stats, prop='C04', only=('base-store', 'base-fetch', 'base-build'))


def all_violations(tier: str, stats: Stats) -> list[Violation]:
    return own_writes(tier, stats) + completeness(tier, stats) + diff_laws(tier, stats) + essence_is_about_the_object(tier, stats)


# ---- (v) the same in vivo: the closed loop ---------------------------------------------------------------

def _loop_scenarios(tier: str) -> list[Any]:
    from kv.explorer import Env
    from kv.harness.change import ChangeScenario

    class C04Loop(ChangeScenario):
        """An object (with a spec / with an EMPTY essence) in the real loop: change handlers fire exactly for the essential
        edits of the user - once for the creation, once per essential edit, never for the operator's own writes, the status
        stanza or system metadata - and the operator falls silent."""
        name = 'c04-loop'
        prop = 'C04'

        def check(self, env: Env) -> list[Violation]:
            if env.end_reason in ('stall', 'livelock', 'step-budget', 'deadlock'):
                return [self.viol(env, 'no-progress', f'execution ended with {env.end_reason}', end=env.end_reason)]
            if env.deviations or self.carveouts(env) or env.owes():
                return []
            out = []
            kinds_of_edit = ('spec', 'label', 'annotate') + (('status',) if self.params.get('status_watched') else ())
            essential = [(t, p['name']) for t, k, p in env.obs if k == 'user' and p['name'].split('-')[0] in kinds_of_edit]   # 'statusset' edits ANOTHER status field
            calls = [(t, p['id'], p.get('reason')) for t, k, p in env.obs if k == 'call' and p.get('reason') in ('create', 'update')
                     and p['id'] in ('c1', 'u1') and p['outcome'].split(',')[0].split('~')[0] in ('ok', 'perm')]
            want = [('c1', 'create')] + [('u1', 'update')] * len(essential)
            got = [(i, r) for _, i, r in calls]
            if got != want:
                out.append(self.viol(env, 'change-handling-not-exact',
                                     f"essential edits at {essential}; change handlers ran as {calls}, exactly {want} was due",
                                     clause='triggered-only-by-essential-changes', direction='more' if len(got) > len(want) else 'fewer',
                                     bare=bool(self.params.get('bare'))))
            # what the handlers are GIVEN: old/new/diff, whole-object or narrowed to the handler's field, are exact and own-write-free
            for t, k, p in env.obs:
                if k != 'call' or 'diff' not in p or p.get('reason') not in ('create', 'update'):
                    continue
                o, n, d = p.get('old'), p.get('new'), [tuple(x) for x in p.get('diff') or []]
                applied = apply_diff(o, d)
                if not (json_eq_nullabsent(applied, n) or (applied is None and n is None) or (applied in (None, {}) and n in (None, {}))):
                    out.append(self.viol(env, 'handler-diff-unsound', f"t={t}: handler {p['id']} got old={o!r} diff={d!r} new={n!r}: applying the diff to old "
                                                                      f"gives {applied!r}", clause='diff-exact', narrowed='/' in p['id']))
                blob = json.dumps([o, n, d], default=str)
                if 'kopf.zalando.org' in blob or '"kopf"' in blob:
                    out.append(self.viol(env, 'own-write-shown-to-handler', f"t={t}: handler {p['id']} was given the framework's own records in "
                                                                            f"old/new/diff: {blob[:300]}", clause='own-writes-invisible', narrowed='/' in p['id']))
            writes = [w['t'] for w in self.op_writes(env)]
            t_last = max([t for t, _ in essential] + [1.0])
            late = [t for t in writes if t > t_last + 10]
            if late:
                out.append(self.viol(env, 'self-triggering', f"the operator keeps writing to the object long after the last edit ({t_last}): {late[:5]}",
                                     clause='never-triggers-itself'))
            return out
    globals()['C04Loop'] = C04Loop
    out = []
    edits = [[], [('status', 'a', 1)], [('annotate', 'a', 'user/note', 'x')], [('status', 'a', 1), ('label', 'a', 'l', 'v'), ('status', 'a', 2)],
             [('addfin', 'a', 'other/fin'), ('spec', 'a', 2), ('delfin', 'a', 'other/fin')],
             # a number replaced by the boolean Python equates it with (1 -> true), followed by inessential events
             [('spec', 'a', True), ('status', 'a', 1), ('status', 'a', 2)], [('spec', 'a', 0), ('spec', 'a', False), ('status', 'a', 1)]]
    for bare in (False, True):
        for storage in ('annotations', 'status'):
            for sub in ((False, True) if storage == 'status' else (False,)):
                for ed in edits:
                    if bare and any(a[0] == 'spec' for a in ed):
                        continue
                    user = [(1.0, 'createbare' if bare else 'create', 'a')] + [(6.0 + 5 * i, *a) for i, a in enumerate(ed)]
                    handlers = [dict(id='c1', on='create', script=['ok']), dict(id='u1', on='update', script=['ok'])]
                    if not bare and storage == 'annotations' and any(a[0] in ('annotate', 'label') for a in ed):
                        # handlers narrowed to fields that the framework's own records live in, or next to
                        # (NB: a handler on field='metadata' as a whole pulls resourceVersion & co. into the essence and makes the
                        #  operator chase its own writes for ever - the user asked to watch system metadata; not part of this property)
                        narrowed = handlers + [dict(id='fa', on='update', field='metadata.annotations', script=['ok']),
                                               dict(id='fl', on='update', field='metadata.labels', script=['ok']),
                                               dict(id='fs', on='update', field='spec', script=['ok'])]
                        out.append(C04Loop(handlers=narrowed, user=user + [(user[-1][0] + 5, 'annotate', 'a', 'user/second', 'y')],
                                           horizon=6.0 + 5 * len(ed) + 35, bare=bare, storage=storage, sub=sub, narrowed=True, lifecycle='all_at_once',
                                           settings={'persistence__consistency_timeout': 5.0}, delays=False, early_user=False, time_dev=False))
                        # ... and in cycles of several steps (one handler per step, one of them retrying): the other handlers' progress
                        # records are on the object while a narrowed handler is given its old/new/diff
                        slow = [dict(h, script=['temp1', 'ok']) if h['id'] == 'u1' else h for h in narrowed]
                        out.append(C04Loop(handlers=slow, user=user + [(user[-1][0] + 8, 'annotate', 'a', 'user/second', 'y')],
                                           horizon=6.0 + 5 * len(ed) + 45, bare=bare, storage=storage, sub=sub, narrowed=True, lifecycle='asap', multistep=True,
                                           settings={'persistence__consistency_timeout': 5.0}, delays=False, early_user=False, time_dev=False))
                    out.append(C04Loop(handlers=handlers, user=user, horizon=6.0 + 5 * len(ed) + 25, bare=bare, storage=storage, sub=sub,
                                       settings={'persistence__consistency_timeout': 5.0}, delays=False, early_user=False, time_dev=False))
    # the operator also serves ANOTHER kind whose handlers are narrowed to status / metadata fields: nothing of that is essential here
    for ed in ([('status', 'a', 1)], [('status', 'a', 1), ('spec', 'a', 2), ('status', 'a', 2)], [('addfin', 'a', 'other/fin'), ('status', 'a', 1), ('delfin', 'a', 'other/fin')]):
        user = [(1.0, 'create', 'a')] + [(6.0 + 5 * i, *a) for i, a in enumerate(ed)]
        handlers = [dict(id='c1', on='create', script=['ok']), dict(id='u1', on='update', script=['ok'])]
        out.append(C04Loop(handlers=handlers, user=user, horizon=6.0 + 5 * len(ed) + 25, bare=False, storage='annotations', sub=False,
                           other_kind_handlers=[dict(id='w1', on='update', field='status'), dict(id='w2', on='field', field='metadata.finalizers')],
                           settings={'persistence__consistency_timeout': 5.0}, delays=False, early_user=False, time_dev=False))
    # a handler on the whole status stanza while the framework keeps its own records there (status storages), in cycles with retries
    # (a waiting handler makes the framework "touch" the object): own records and touches are not changes, the user's status edits are
    for sub in (False, True):
        for u1 in (['ok'], ['temp', 'ok'], ['temp', 'temp', 'ok']):
            for ed in ([('spec', 'a', 2)], [('spec', 'a', 2), ('status', 'a', 1)], [('label', 'a', 'l', 'v'), ('spec', 'a', 2)]):
                user = [(1.0, 'create', 'a')] + [(6.0 + 12 * i, *a) for i, a in enumerate(ed)]
                handlers = [dict(id='c1', on='create', script=['ok']), dict(id='u1', on='update', script=u1),
                            dict(id='fst', on='update', field='status', script=['ok'])]
                out.append(C04Loop(handlers=handlers, user=user, horizon=6.0 + 12 * len(ed) + 30, bare=False, storage='status', sub=sub, narrowed=True,
                                   status_watched=True, settings={'persistence__consistency_timeout': 5.0}, delays=False, early_user=False, time_dev=False))
    # multi-location storages (annotations + status, both orders) and a handler narrowed to ONE field of the status stanza: that field is
    # part of the essence (its edits are changes, for every update handler), the rest of the stanza and the framework's records there are not
    for storage in ('multi', 'multi-sa', 'annotations', 'status'):
        for u1 in (['ok'], ['temp', 'ok']):
            for ed in ([('status', 'a', 1)], [('status', 'a', 1), ('statusset', 'a', 'other', 5), ('status', 'a', 2)], [('spec', 'a', 2), ('status', 'a', 1)]):
                user = [(1.0, 'create', 'a')] + [(6.0 + 12 * i, *a) for i, a in enumerate(ed)]
                handlers = [dict(id='c1', on='create', script=['ok']), dict(id='u1', on='update', script=u1),
                            dict(id='fsf', on='update', field='status.foreign', script=['ok'])]
                out.append(C04Loop(handlers=handlers, user=user, horizon=6.0 + 12 * len(ed) + 30, bare=False, storage=storage, sub=False, narrowed=True,
                                   status_watched=True, settings={'persistence__consistency_timeout': 5.0}, delays=False, early_user=False, time_dev=False))
    return out


def run(tier: str, seed: int) -> CheckResult:
    from kv.runner import run_groups
    stats = Stats()
    viols = all_violations(tier, stats)
    st2, v2, info, nscen = run_groups([('closed-loop', _loop_scenarios(tier), 0, 40.0)], seed=seed)
    stats.merge(st2)
    viols = viols + v2
    stats.outcomes = set(stats.nontrivial)
    stats.bound_completed = 0
    return CheckResult(
        prop='C04', tier=tier, seed=seed, stats=stats, violations=viols, scenarios=3 + nscen, bound_requested=0,
        extra={'parts': ['own-writes state graph', 'completeness mutations', 'diff laws', 'closed loop'], 'groups': info,
               'state_graph_depth': 2 if tier == 'quick' else 3, 'configs': [c.name for c in configs(tier)]},
        rule="(i)/(ii) breadth-first state graph from 4 seed bodies (bare, rich, ReplicaSet owned by a Deployment, ConfigMap with a "
             "foreign finalizer): every framework write operation (store x 4 ids x 2 records, purge, touch, diff-base store, finalizer "
             "block/allow, result delivery) applied via an independent RFC 7386 merge, to depth 2 (quick) / 3, for every storage "
             "configuration, the essence checked for the writer AND for every other configuration as observer; (iii) single-field "
             "mutations; (iv) all ordered pairs of a universe of small JSON values/bodies (nesting <= 2/3) for the diff laws; "
             "(v) the closed loop: objects with a spec / with an empty essence x storage {annotations, status (with and without the "
             "subresource)} x edit sequences (status, ordinary annotation, label, foreign finalizer, spec): change handlers run exactly once per "
             "essential edit and the operator falls silent; non-trivial = the operation changed the body / the pair has a non-empty diff",
        assumptions=["a null-valued member of a mapping is compared as absent (Kubernetes never stores nulls)",
                     "JSON equality distinguishes booleans from numbers"],
        level='model_checking')


def scenario_from(name: str, params: dict[str, Any]) -> Any:
    _loop_scenarios('quick')
    return globals()['C04Loop'](**params)


def reverify(v: Violation) -> bool:
    if v.scenario == 'c04-loop':
        from kv.runner import default_reverify
        return default_reverify(v)
    return any(x.key() == v.key() for x in all_violations('quick', Stats())) or \
        any(x.key() == v.key() for x in all_violations('thorough', Stats()))


def replay(rec: dict[str, Any]) -> int:
    if rec['scenario'] == 'c04-loop':
        from kv.explorer import execute
        env = execute(scenario_from(rec['scenario'], rec['params']), rec['labels'])
        viols = getattr(env, 'violations', [])
        for v in viols:
            print('VIOLATION', v.kind, v.message)
        return 1 if viols else 0
    viols = [v for v in all_violations('thorough', Stats()) if _sig(v) == rec['signature']]
    for v in viols:
        print('VIOLATION', v.kind, v.message)
    return 1 if viols else 0


def _sig(v: Violation) -> Any:
    return json.loads(json.dumps(v.signature, default=repr))
