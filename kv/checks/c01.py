"""
C01 Per-object event processing is serial, ordered and lossless.

Subject: the real `queueing.watcher()` / `worker()` / `Scheduler`, fed by the real
`watching.infinite_watch()` from the World, with an instrumented processor.
Search: for every small event stream (arrival instants chosen to collide with the end of
processing and with the idle-worker retirement), every placement of an arrival among the
loop's step boundaries of that instant (deviations), worker limits, and watcher cancellation.
Oracle: exact agreement of every processing interval with a boring reference simulation of
"one FIFO worker per object, at most L workers, idle retirement", plus the structural clauses.
"""
from __future__ import annotations

import asyncio
import collections
import heapq
import itertools
from typing import Any

from kopf._cogs.clients import auth, watching
from kopf._core.reactor import queueing

from kv.explorer import Env, Scenario, UserAction, Violation, execute
from kv.harness.op import make_settings, make_vault, resource_of
from kv.runner import CheckResult, explore_parallel
from kv.world import KEX, REPLICASETS

IDLE = 1.0
EXIT = 2.0
_INFINITE_WATCH = watching.infinite_watch     # the real one; every execution wraps it afresh (never a wrapper of a wrapper)


def _observed_watch(env: Env) -> Any:
    """The real watch client, with one observation added: which events the WATCHER has taken from it. The log entry is written
    right before the `yield`, i.e. in the very step in which the consumer's `async for` receives the event (no loop step in
    between, no change of the schedule). An event the watcher has taken is the watcher's to process, cancellation or not."""
    async def infinite_watch(**kwargs: Any) -> Any:
        async for raw_event in _INFINITE_WATCH(**kwargs):
            obj = raw_event.get('object') if isinstance(raw_event, dict) else None     # bookmarks are not events
            if obj and 'spec' in obj:
                seq = obj['spec']['seq']
                if raw_event.get('type') == 'DELETED':
                    seq = env.memo['deleted_rv'][obj['metadata']['resourceVersion']]
                env.log('read', seq=seq)
            yield raw_event
    return infinite_watch


def references(events: list[tuple[float, str, float]], limit: int | None, cancel_at: float | None
               ) -> list[dict[int, tuple[float, float | None]]]:
    """All reference outcomes: one per resolution of the retire-vs-arrive ties of one instant
    (both orders are legitimate; they differ only when a worker limit makes objects share slots)."""
    ties: list[int] = []
    first = reference(events, limit, cancel_at, bits=[], ties=ties)
    outs = [first]
    n = min(ties[0] if ties else 0, 6)
    if limit is not None and n:
        for mask in range(1, 2 ** n):
            bits = [bool(mask >> i & 1) for i in range(n)]
            r = reference(events, limit, cancel_at, bits=bits, ties=[])
            if r not in outs:
                outs.append(r)
    return outs


def reference(events: list[tuple[float, str, float]], limit: int | None, cancel_at: float | None,
              bits: list[bool] | None = None, ties: list[int] | None = None
              ) -> dict[int, tuple[float, float | None]]:
    """Expected (start, end) per event index. end=None: may be cut by the exit timeout."""
    INF = float('inf')
    bits = list(bits or [])
    ntie = 0
    queue: dict[str, collections.deque] = collections.defaultdict(collections.deque)
    alive: dict[str, bool] = {}
    busy_until: dict[str, float] = {}
    retire_at: dict[str, float] = {}
    waiting: collections.deque = collections.deque()   # uids waiting for a slot
    result: dict[int, tuple[float, float | None]] = {}
    heap: list[tuple[float, int, int, str, Any]] = []
    seq = itertools.count()
    for i, (t, uid, dur) in enumerate(events):
        heapq.heappush(heap, (t, 2, next(seq), 'arrive', (i, uid, dur)))
    if cancel_at is not None:
        heapq.heappush(heap, (cancel_at, 3, next(seq), 'cancel', None))
    cancelled = False
    deadline = INF

    def nalive() -> int:
        return sum(1 for v in alive.values() if v)

    def try_start(uid: str, now: float) -> None:
        if not alive.get(uid) or busy_until.get(uid, -1) > now or not queue[uid]:
            return
        i, dur = queue[uid].popleft()
        end = now + dur
        busy_until[uid] = end
        if end > deadline:
            result[i] = (now, None)
        else:
            result[i] = (now, end)
        heapq.heappush(heap, (end, 0, next(seq), 'end', uid))

    def spawn(uid: str, now: float) -> None:
        if limit is None or nalive() < limit:
            alive[uid] = True
            busy_until[uid] = now
            try_start(uid, now)
        else:
            if uid not in waiting:
                waiting.append(uid)

    def retire(uid: str, now: float) -> None:
        alive[uid] = False
        while waiting and (limit is None or nalive() < limit):
            nxt = waiting.popleft()
            spawn(nxt, now)

    while heap:
        now, _, _s, kind, data = heapq.heappop(heap)
        if now > deadline:
            break
        if kind == 'arrive':
            if cancelled:
                continue
            i, uid, dur = data
            queue[uid].append((i, dur))
            if alive.get(uid):
                retire_at[uid] = INF
                try_start(uid, now)
            elif uid not in waiting:
                spawn(uid, now)
        elif kind == 'end':
            uid = data
            if queue[uid]:
                try_start(uid, now)
            elif cancelled:
                retire(uid, now)
            else:
                retire_at[uid] = now + IDLE
                heapq.heappush(heap, (now + IDLE, 1, next(seq), 'retire', uid))
        elif kind == 'retire':
            uid = data
            if any(h[0] == now and h[3] == 'arrive' for h in heap) and _ == 1:
                # a tie: an arrival at the very instant of a retirement. Either order is legal.
                bit = bits[ntie] if ntie < len(bits) else False
                ntie += 1
                if bit:
                    heapq.heappush(heap, (now, 2.5, next(seq), 'retire', uid))
                    continue
            if alive.get(uid) and retire_at.get(uid) == now and not queue[uid] and busy_until.get(uid, -1) <= now:
                retire(uid, now)
        elif kind == 'cancel':
            cancelled = True
            deadline = now + EXIT
            for uid in list(alive):
                if alive[uid] and busy_until.get(uid, -1) <= now and not queue[uid]:
                    retire(uid, now)
            # busy ones drain their queues and exit (handled at 'end').
            # events that would end after the deadline are marked cut
            for i, (s, e) in list(result.items()):
                if e is not None and e > deadline:
                    result[i] = (s, None)
    if ties is not None:
        ties.append(ntie)
    return result


class QueueingScenario(Scenario):
    name = 'queueing'
    prop = 'C01'
    horizon = 30.0
    dev_when_ready = True
    kinds = [KEX]

    def __init__(self, **params: Any) -> None:
        super().__init__(**params)
        self.events = [tuple(e) for e in params['events']]   # (at, uid, dur[, 'D' = the object is deleted: a DELETED event])
        self.limit = params.get('limit')
        self.cancel_at = params.get('cancel_at')
        self.cancel2 = params.get('cancel2', False)
        self.nouid = params.get('nouid', False)
        # listed=True: the first event's object exists before the watcher starts, i.e. it is first seen through the LISTING
        # (of a kind whose name ends in the letters of 'List': the list's kind is turned back into the items' kind)
        self.K = REPLICASETS if params.get('listed') else KEX
        self.kinds = [self.K]

    def delays(self, env: Env, req: Any) -> bool:
        return False

    def allow_early_user(self, env: Env, action: UserAction) -> bool:
        return False

    def allow_time_deviation(self, env: Env) -> bool:
        return False

    def user_ready(self, env: Env, action: UserAction) -> bool:
        return bool(env.world.open_streams())  # events flow only through an established watch

    def setup(self, env: Env) -> None:
        settings = make_settings(queueing__idle_timeout=IDLE, queueing__exit_timeout=EXIT,
                                 queueing__worker_limit=self.limit)
        patched = bool(self.params.get('patched'))
        if patched:
            # the processor reports a patched version whose echo never comes: the worker's consistency bookkeeping
            # (deadline = 0.5 s, shorter than the idle timeout and than slow processing) must not change what is processed when
            settings.persistence.consistency_timeout = 0.5
        resource = resource_of(self.K)

        async def processor(*, raw_event: Any, **kwargs: Any) -> None:
            obj = raw_event['object']
            seq = obj['spec']['seq']
            if raw_event['type'] == 'DELETED':    # it carries the last state of the object: told apart by its version
                seq = env.memo['deleted_rv'][obj['metadata']['resourceVersion']]
            uid = obj['metadata'].get('uid') or obj['metadata']['name']
            env.log('proc-start', seq=seq, uid=uid, rv=obj['metadata']['resourceVersion'])
            running = env.memo.setdefault('running', set())
            running.add(seq)
            env.memo['maxconc'] = max(env.memo.get('maxconc', 0), len(running))
            if len({s for s in running if uid == (self.events[s][1] if s < len(self.events) else 'a')}) > 1:
                env.log('overlap', seq=seq, running=sorted(running))
            try:
                if seq < len(self.events) and self.events[seq][2]:
                    await asyncio.sleep(self.events[seq][2])
                env.log('proc-end', seq=seq, uid=uid)
            finally:
                running.discard(seq)
            return f'never-{seq}' if patched else None

        watching.infinite_watch = _observed_watch(env)   # type: ignore[assignment]

        async def main() -> None:
            auth.vault_var.set(make_vault(env.world))
            before = asyncio.all_tasks()
            try:
                await queueing.watcher(namespace=None, settings=settings, resource=resource,
                                       processor=processor)  # type: ignore[arg-type]
            except asyncio.CancelledError:
                env.log('watcher-exit', how='cancelled')
            except BaseException as e:
                env.log('watcher-exit', how='error', error=repr(e))
            else:
                env.log('watcher-exit', how='returned')
            left = [t.get_name() for t in asyncio.all_tasks() - before if not t.done()]
            env.log('left-tasks', names=sorted(left))

        if self.params.get('listed'):
            at, uid, dur, *_ = self.events[0]
            self._create(env, 0, uid, dur)
            env.log('emit', seq=0, uid=uid)
        self.task = env.spawn('A', main(), name='main')

    def _create(self, e: Env, i: int, uid: str, dur: float) -> None:
        K = self.K
        e.world.create(K, 'ns', uid, {'spec': {'seq': i, 'dur': dur}})
        if self.nouid and uid == 'b':
            # an object without a uid (v1/ComponentStatus-like): the fallback key.
            o = e.world.get(K, 'ns', uid)
            del o['metadata']['uid']
            e.world.events[K.key][-1][2]['metadata'].pop('uid', None)

    def script(self, env: Env) -> list[UserAction]:
        seen: set[str] = set()
        actions: list[UserAction] = []

        def mk(i: int, uid: str, dur: float, first: bool, delete: bool = False) -> Any:
            def fn(e: Env) -> None:
                K = self.K
                if delete:
                    e.world.delete(K, 'ns', uid)
                    gone = e.world.events[K.key][-1][2]
                    e.memo.setdefault('deleted_rv', {})[gone['metadata']['resourceVersion']] = i
                elif first:
                    self._create(e, i, uid, dur)
                else:
                    e.world.merge(K, 'ns', uid, {'spec': {'seq': i, 'dur': dur}})
                for s in e.world.open_streams():
                    while e.world.stream_next(s) is not None:
                        e.world.deliver(s)
                e.log('emit', seq=i, uid=uid)
            return fn

        items: list[tuple[float, int, str, Any]] = []
        for i, (at, uid, dur, *flag) in enumerate(self.events):
            if i == 0 and self.params.get('listed'):
                seen.add(uid)
                continue      # it is there already
            items.append((at, i, f'ev{i}', mk(i, uid, dur, uid not in seen, delete=bool(flag))))
            seen.add(uid)
            if flag:
                seen.discard(uid)     # the next event of this name is a re-creation
        if self.params.get('reconnect_at') is not None:
            # the server ends the watch (EOF, no error): the client resumes from the last version it has seen - nothing is replayed
            def reconnect(e: Env) -> None:
                for st in e.world.open_streams():
                    e.stream_fault(st, 'eof')
                e.log('reconnect')
            items.append((float(self.params['reconnect_at']), 9_000, 'reconnect', reconnect))
        if self.params.get('relist_at') is not None:
            # the watch breaks with "410 Gone" and, before the client has listed anew, object `a` changes once more: that change reaches
            # the client through the LISTING only (an event of type None), whatever the state of a's worker at that moment
            def relist(e: Env) -> None:
                for st in e.world.open_streams():
                    e.stream_fault(st, 'gone410')
                i = len(self.events)      # the number of the change made in the gap
                e.world.merge(self.K, 'ns', 'a', {'spec': {'seq': i, 'dur': 0.0}})
                for st in e.world.open_streams():
                    while e.world.stream_next(st) is not None:
                        e.world.deliver(st)
                e.log('relist', seq=i)
            items.append((float(self.params['relist_at']), 9_500, 'relist', relist))
        if self.cancel_at is not None:
            items.append((self.cancel_at, 10_000, 'cancel', lambda e: (e.log('cancel'), self.task.cancel())))
            if self.cancel2:
                items.append((self.cancel_at + 0.25, 10_001, 'cancel2', lambda e: (e.log('cancel'), self.task.cancel())))
        items.sort(key=lambda x: (x[0], x[1]))
        return [UserAction(at, name, fn) for at, _, name, fn in items]

    def done(self, env: Env) -> bool:
        return False

    def check_relisted(self, env: Env) -> list[Violation]:
        """Streams with a re-listing: every object's states are processed in the order they came about, one at a time, and the LAST state of
        every object is processed (a listing delivers the current state of everything once more: repeats are the API's, not the framework's)."""
        out: list[Violation] = []
        seen: dict[str, list[int]] = collections.defaultdict(list)
        for t, k, p in env.obs:
            if k == 'proc-start':
                seen[p['uid']].append(p['seq'])
            elif k == 'overlap':
                out.append(self.viol(env, 'overlap', f"events of one object processed concurrently: {p}", clause='serial'))
            elif k == 'watcher-exit' and p['how'] == 'error':
                out.append(self.viol(env, 'watcher-error', f"watcher raised {p.get('error')}", clause='shutdown'))
        final = {o['metadata'].get('uid') or o['metadata']['name']: o['spec']['seq'] for o in env.world.objects[self.K.key].values()}
        for uid, seqs in seen.items():
            if seqs != sorted(seqs):
                out.append(self.viol(env, 'order', f"object {uid}: states processed in the order {seqs}", clause='order'))
        for uid, last in final.items():
            if not seen.get(uid) or seen[uid][-1] != last:
                out.append(self.viol(env, 'lost', f"object {uid}: its last state (change #{last}, delivered through the re-listing or the watch) was never processed; "
                                                  f"processed: {seen.get(uid)}", clause='lossless', via='relist'))
        return out

    def check(self, env: Env) -> list[Violation]:
        out: list[Violation] = []
        if env.end_reason in ('stall', 'livelock', 'deadlock', 'step-budget'):
            return [self.viol(env, 'no-progress', f'execution ended with {env.end_reason}', end=env.end_reason)]
        if self.params.get('relist_at') is not None:
            return self.check_relisted(env)
        starts: dict[int, float] = {}
        ends: dict[int, float] = {}
        order: dict[str, list[int]] = collections.defaultdict(list)
        arrivals: dict[int, float] = {}
        cancel_t = None
        optional: list[int] = []      # emitted in the very instant of the cancellation, before it
        taken: set[int] = set()       # events the watcher has taken from the watch client
        for t, k, p in env.obs:
            if k == 'proc-start':
                if p['seq'] in starts:
                    out.append(self.viol(env, 'processed-twice', f"event {p['seq']} processed twice", clause='no-duplicate'))
                starts[p['seq']] = t
                order[self.events[p['seq']][1]].append(p['seq'])
            elif k == 'proc-end':
                ends[p['seq']] = t
            elif k == 'overlap':
                out.append(self.viol(env, 'overlap', f"events of one object processed concurrently: {p}", clause='serial'))
            elif k == 'emit' and cancel_t is None:
                arrivals[p['seq']] = t
            elif k == 'read':
                taken.add(p['seq'])
            elif k == 'cancel' and cancel_t is None:
                cancel_t = t
        if cancel_t is not None:
            optional = [i for i in sorted(arrivals) if arrivals[i] == cancel_t and i not in taken]
        if self.limit is not None and env.memo.get('maxconc', 0) > self.limit:
            out.append(self.viol(env, 'limit-exceeded', f"{env.memo['maxconc']} concurrent > limit {self.limit}", clause='limit'))
        for t, k, p in env.obs:
            if k == 'left-tasks' and p['names']:
                out.append(self.viol(env, 'leaked-tasks', f"tasks alive after the watcher returned: {p['names']}", clause='shutdown'))
            if k == 'watcher-exit' and p['how'] == 'error':
                out.append(self.viol(env, 'watcher-error', f"watcher raised {p.get('error')}", clause='shutdown'))
        # Exact agreement with one of the legitimate reference outcomes. Events put on the wire in the
        # very instant of the cancellation may or may not have been read by the watcher yet: the stream
        # is FIFO, so any suffix of them may be missing. What the watcher HAS taken from the watch client
        # ('read', logged in the step in which its `async for` receives the event) is never optional.
        best: list[Violation] | None = None
        for drop in range(len(optional) + 1):
            delivered = [i for i in sorted(arrivals) if i not in optional[len(optional) - drop:]]
            evs = [(arrivals[i], self.events[i][1], self.events[i][2]) for i in delivered]   # a DELETED event is an event like any other
            for ref in references(evs, self.limit, cancel_t):
                mism = self._compare(env, delivered, ref, starts, ends, order)
                if not mism:
                    return out
                if best is None or len(mism) < len(best):
                    best = mism
        return out + (best or [])

    def _compare(self, env: Env, delivered: list[int], ref: dict[int, tuple[float, float | None]],
                 starts: dict[int, float], ends: dict[int, float], order: dict[str, list[int]]) -> list[Violation]:
        out: list[Violation] = []
        for uid, seqs in order.items():
            expected = [i for i in delivered if self.events[i][1] == uid]
            if seqs != expected[:len(seqs)]:
                out.append(self.viol(env, 'order', f"object {uid}: processed {seqs}, delivered {expected}", clause='order'))
        for j, (s, e) in ref.items():
            i = delivered[j]
            if i not in starts:
                if e is not None:
                    out.append(self.viol(env, 'lost', f"event {i} {self.events[i]} never processed (expected at {s})", clause='lossless'))
                continue
            if starts[i] != s:
                kind = 'late' if starts[i] > s else 'early'
                out.append(self.viol(env, f'start-{kind}', f"event {i} {self.events[i]} started at {starts[i]}, reference says {s}", clause='no-waiting'))
            if e is not None and ends.get(i) != e:
                out.append(self.viol(env, 'cut', f"event {i} {self.events[i]} ended at {ends.get(i)}, reference says {e}", clause='lossless'))
        expected_idx = {delivered[j] for j in ref}
        for i in starts:
            if i not in expected_idx:
                out.append(self.viol(env, 'spurious', f"event {i} processed but not expected", clause='order'))
        return out


def scenarios(tier: str) -> list[QueueingScenario]:
    out: list[QueueingScenario] = []
    gaps = [0.0, 0.25, 1.0, 1.25]
    durs = [0.0, 0.25, 1.5]
    uids = ['a', 'b']

    def streams(n: int) -> Any:
        for combo in itertools.product(itertools.product(uids, gaps, durs), repeat=n - 1):
            for d0 in durs:
                evs = [(0.0, 'a', d0)]
                t = 0.0
                for uid, gap, dur in combo:
                    t += gap
                    evs.append((t, uid, dur))
                yield evs

    maxn = 3 if tier == 'quick' else 4
    seen = set()
    for n in range(1, maxn + 1):
        for evs in streams(n):
            if n == 4 and tier != 'quick':
                # depth 4 only for streams that return to the first object (the collisions of interest)
                if evs[-1][1] != 'a' and evs[-2][1] != 'a':
                    continue
            key = tuple(evs)
            if key in seen:
                continue
            seen.add(key)
            out.append(QueueingScenario(events=evs, limit=None))
            if n >= 2 and any(e[1] == 'b' for e in evs):
                out.append(QueueingScenario(events=evs, limit=1))
            if n == 3 and any(e[1] == 'b' for e in evs) and evs[1][2] == 1.5:
                out.append(QueueingScenario(events=evs, limit=2, nouid=True))
    # a third object with limit 2
    for g1, g2, d in itertools.product([0.0, 0.25], [0.0, 1.0], [0.25, 1.5]):
        out.append(QueueingScenario(events=[(0.0, 'a', d), (g1, 'b', d), (g1 + g2, 'c', 0.25), (g1 + g2 + 1.0, 'a', 0.0)], limit=2))
    # a uid-less object (keyed by kind/name/namespace/creation second) is deleted and re-created within that second: its DELETED
    # event, slow or quick to process, is followed by further events of the same key - during, at the end of, and after its processing
    for d_del, gap, d_next in itertools.product([0.0, 0.25, 1.5], [0.0, 0.25, 0.5], [0.0, 0.25]):
        for lim in (None, 1):
            out.append(QueueingScenario(events=[(0.0, 'a', 0.25), (0.0, 'b', 0.0), (0.25, 'b', d_del, 'D'), (0.25 + gap, 'b', d_next)], limit=lim, nouid=True))
        out.append(QueueingScenario(events=[(0.0, 'b', 0.25), (0.0, 'b', d_del, 'D'), (gap, 'b', d_next), (gap + 0.25, 'b', 0.0)], limit=None, nouid=True))
    # an object first seen through the listing (with and without a uid), its further events arriving while the listed state is processed
    for d0, gap, d1 in itertools.product([0.25, 1.5], [0.0, 0.25, 1.0], [0.0, 0.25]):
        for nouid in (False, True):
            out.append(QueueingScenario(events=[(0.0, 'b', d0), (gap, 'b', d1), (gap + 0.25, 'a', 0.0)], limit=None, nouid=nouid, listed=True))
    # the watch is ended by the server and resumed, with resource versions that gain a digit on the way (9 -> 10, 99 -> 100)
    for rv0 in list(range(4, 10)) + list(range(93, 100)):
        for rc in (0.75, 1.25):
            out.append(QueueingScenario(events=[(0.0, 'a', 0.0), (0.25, 'a', 0.0), (0.5, 'b', 0.25), (0.75, 'a', 0.0), (1.0, 'b', 0.0), (1.75, 'a', 0.25), (2.0, 'b', 0.0)],
                                        limit=None, rv0=rv0, reconnect_at=rc))
    # the lines of the watch arrive cut into network reads in other ways than one line per read
    for framing in ('newline-alone', 'split-mid', 'newline-leads', 'bytes3'):
        for evs in ([(0.0, 'a', 0.25), (0.0, 'b', 0.0), (0.25, 'a', 0.0)], [(0.0, 'a', 1.5), (0.25, 'a', 0.25), (0.25, 'b', 0.25), (1.25, 'a', 0.0)]):
            out.append(QueueingScenario(events=evs, limit=None, framing=framing))
    # the watch breaks (410 Gone) and is re-listed while a's worker is busy / idle but alive / retired / waiting for a slot, a having changed in the gap
    for evs in ([(0.0, 'a', 1.5), (0.25, 'b', 0.0)], [(0.0, 'a', 0.0), (0.25, 'b', 0.25)], [(0.0, 'a', 0.25), (0.0, 'b', 1.5), (0.25, 'a', 0.0)]):
        for at in (0.5, 0.75, 1.0, 1.25, 1.5, 2.5):
            for lim in (None, 1):
                out.append(QueueingScenario(events=evs, limit=lim, relist_at=at))
    # cancellation (single and double) while workers are busy / idle / waiting for a slot
    for evs in ([(0.0, 'a', 0.25), (0.0, 'a', 0.25)], [(0.0, 'a', 1.5), (0.25, 'b', 0.25), (0.25, 'a', 0.25)],
                [(0.0, 'a', 1.5), (0.0, 'a', 1.5)], [(0.0, 'a', 0.25), (0.0, 'b', 1.5), (0.25, 'b', 0.25)]):
        for c in (0.0, 0.25, 0.5, 1.25):
            for lim in (None, 1):
                for c2 in (False, True):
                    out.append(QueueingScenario(events=evs, limit=lim, cancel_at=c, cancel2=c2))
    return out


def run(tier: str, seed: int) -> CheckResult:
    from kv.runner import run_groups
    scs = scenarios(tier)
    small = [sc for sc in scs if len(sc.events) <= 2 or sc.cancel_at is not None or len(sc.events) == 4]
    patched = [QueueingScenario(**dict(sc.params, patched=True)) for sc in scs if sc.cancel_at is None and (sc.limit is None or len(sc.events) == 4)]
    if tier == 'quick':
        groups = [('all-streams', scs, 1, 45.0), ('small-streams+cancellation', small, 2, 40.0), ('unanswered-patched-versions', patched, 1, 40.0)]
    else:
        groups = [('all-streams', scs, 2, 600.0), ('small-streams+cancellation', small, 3, 600.0), ('unanswered-patched-versions', patched, 2, 400.0)]
    stats, viols, info, nscen = run_groups(groups, seed=seed)
    return CheckResult(
        prop='C01', tier=tier, seed=seed, stats=stats, violations=viols, scenarios=nscen,
        bound_requested=max(g[2] for g in groups), extra={'groups': info},
        rule="scenarios = every event stream of <=3 (quick) / <=4 (thorough) events over 2-3 objects with "
             "arrival gaps {0,0.25,1.0,1.25} and processing durations {0,0.25,1.5} (idle_timeout=1.0, so "
             "arrivals collide with the end of processing and with worker retirement), worker_limit "
             "{None,1,2}, a uid-less object, single/double cancellation; deviations = an arrival (or the "
             "cancellation) placed at any loop step boundary of its instant instead of at quiescence; an "
             "execution is non-trivial if its observable outcome differs from the default schedule of its scenario",
        assumptions=["asyncio's Task/Queue/Condition implementation (real, driven by the virtual loop)",
                     "timers due at the same instant are released in heap order (tie orders not permuted)",
                     "the World's list/watch semantics (self-tested)"])


def scenario_from(name: str, params: dict[str, Any]) -> Scenario:
    return QueueingScenario(**params)


def reverify(v: Violation) -> bool:
    env = execute(scenario_from(v.scenario, v.params), v.labels)
    return any(x.key() == v.key() for x in getattr(env, 'violations', []))


def replay(rec: dict[str, Any]) -> int:
    sc = scenario_from(rec['scenario'], rec['params'])
    env = execute(sc, rec['labels'])
    viols = getattr(env, 'violations', [])
    for t, k, p in env.obs:
        print(f'{t:8.3f} {k:12s} {p}')
    for v in viols:
        print('VIOLATION', v.kind, v.message)
    return 1 if viols else 0
