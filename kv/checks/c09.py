"""
C09 Daemon/timer lifecycle: one instance, started on match, stopped in stages.

Subject: daemons.spawn_daemons/_runner/stop_daemons/stop_daemon/match_daemons/pause_daemons/daemon_killer,
processing.process_spawning_cause, stoppers, in the closed loop with the pause toggle and operator exit.
Search: daemon reaction {obeys, needs cancellation, ignores both, exits on its own} x cancellation_backoff
{None,2} x cancellation_timeout {None,3}; timer configuration {interval, idle, both, neither} x
initial_delay; one or two spawned handlers per object; every history to depth d over {label on/off,
delete, delete after forced finalizer removal, pause, resume, operator exit} in two spacings (inside /
outside the termination stages); deviation-bounded timing on representatives.
Oracle: runs of one (object, handler) never overlap; an instance starts in the instant the matching
object is processed; the stop flag precedes any cancellation, which comes no sooner than the backoff;
an instance that exited on its own is not started again; no instance is started while a stopping one
lives; no step of the loop stalls and the operator's tasks do not fail.
"""
from __future__ import annotations

import itertools
from typing import Any

from kv.explorer import Env, Scenario, Violation, execute
from kv.harness.change import ChangeScenario
from kv.runner import CheckResult, run_groups


class C09Scenario(ChangeScenario):
    name = 'c09'
    prop = 'C09'

    def __init__(self, **params: Any) -> None:
        super().__init__(**params)
        self.dev_when_ready = bool(params.get('dev_when_ready'))    # environment actions at every step boundary, not only at quiescence

    def check(self, env: Env) -> list[Violation]:
        out: list[Violation] = []
        if env.end_reason == 'stall' or env.loop.stall is not None:
            st = env.loop.stall or {}
            frames = st.get('stack', [])
            where = next((f for f in frames if '/kopf/_core/' in f), next((f for f in frames if '/kopf/' in f), (frames or ['?'])[0]))
            func = where.rsplit(':', 1)[-1]
            return [self.viol(env, 'stall', f"the event loop stalled at virtual t={st.get('vtime')}: a step never returned; spinning in {where}",
                              clause='never-stalls', func=func)]
        if env.end_reason in ('livelock', 'step-budget', 'deadlock'):
            return [self.viol(env, 'no-progress', f'execution ended with {env.end_reason}', end=env.end_reason)]
        spawned = {h['id']: h for h in self.params['handlers'] if h['on'] in ('daemon', 'timer')}
        exact = not env.deviations
        live: dict[tuple[str, str, str], dict] = {}       # (op, uid, id) -> current instance
        self_exited: set[tuple[str, str, str]] = set()
        stopping: dict[tuple[str, str, str], float] = {}
        timer_running: dict[tuple[str, str, str], float] = {}
        ended: list[tuple[tuple[str, str, str], dict, float]] = []
        for t, k, p in env.obs:
            if k == 'pipeline-error':
                out.append(self.viol(env, 'operator-task-failed', f"t={t}: a root task of the operator failed: {p.get('error')}", clause='never-crashes'))
            if k == 'daemon-enter':
                key = (p['op'], p['uid'], p['id'])
                if key in live:
                    out.append(self.viol(env, 'two-instances', f"t={t}: daemon {p['id']} started while its previous instance (since {live[key]['enter']}) still runs",
                                         clause='one-instance', kind2='daemon'))
                if key in self_exited:
                    out.append(self.viol(env, 'restarted-after-own-exit', f"t={t}: daemon {p['id']} was started again although it had exited on its own", clause='no-restart'))
                live[key] = {'enter': t, 'flag': None, 'cancel': None, 'inst': p['inst']}
            elif k == 'daemon-flag':
                key = (p['op'], p['uid'], p['id'])
                if key in live and live[key]['inst'] == p['inst']:
                    if live[key]['flag'] is None and not self._reason_to_stop(env, spawned[p['id']], p['op'], t):
                        out.append(self.viol(env, 'stopped-without-reason', f"t={t}: {p['id']} was asked to stop (reason {p.get('reason')}) although its object "
                                                                            f"still exists and matches, and the operator neither pauses nor exits", clause='asked-to-stop-when'))
                    live[key]['flag'] = t
            elif k == 'daemon-cancelled':
                key = (p['op'], p['uid'], p['id'])
                inst = live.get(key)
                if inst is not None and inst['inst'] == p['inst'] and inst['cancel'] is None:
                    inst['cancel'] = t
                    h = spawned[p['id']]
                    backoff = h.get('cancellation_backoff')
                    if inst['flag'] is None:
                        if not self._operator_gone(env, p['op'], t):
                            out.append(self.viol(env, 'cancelled-before-flag', f"t={t}: daemon {p['id']} was cancelled without the stop flag being set first", clause='stages'))
                    elif backoff is not None and t < inst['flag'] + backoff:
                        if not self._operator_gone(env, p['op'], t):
                            out.append(self.viol(env, 'cancelled-before-backoff', f"t={t}: daemon {p['id']} cancelled {t - inst['flag']}s after the stop flag, backoff is {backoff}",
                                                 clause='stages'))
            elif k == 'daemon-exit':
                key = (p['op'], p['uid'], p['id'])
                inst = live.pop(key, None)
                if inst is not None:
                    ended.append((key, inst, t))
                if inst is not None and inst['flag'] is None and p['how'] == 'returned':
                    self_exited.add(key)
            elif k == 'call' and p['id'] in spawned and spawned[p['id']]['on'] == 'timer':
                key = (p['op'], p['uid'], p['id'])
                if key in timer_running:
                    out.append(self.viol(env, 'two-instances', f"t={t}: timer {p['id']} started while its previous run (since {timer_running[key]}) still goes",
                                         clause='one-instance', kind2='timer'))
                timer_running[key] = t
            elif k == 'ret' and p['id'] in spawned and spawned[p['id']]['on'] == 'timer':
                timer_running.pop((p['op'], p['uid'], p['id']), None)
            elif k == 'kill':
                for key in [k2 for k2 in live if k2[0] == p['op']]:
                    live.pop(key)
        # staged termination is actually carried out: a flagged daemon that does not leave by itself is cancelled
        # exactly when the backoff is over (if a cancellation timeout is configured at all) - default timing only.
        # ("never" is judged on every execution in which the clock was not moved past due work - a `time` deviation is a slow CPU -;
        #  the exact instant only on the default timing)
        timely = not any(c.split(':')[0] == 'time' for _, c in env.deviations)
        if exact or timely:
            for key, inst, t_end in ended + [(k2, i2, self.horizon) for k2, i2 in live.items()]:
                h = spawned[key[2]]
                if h['on'] != 'daemon' or inst['flag'] is None or h.get('reaction') not in ('cancel', 'ignore'):
                    continue
                if h.get('cancellation_timeout') is None:
                    continue
                due = inst['flag'] + (h.get('cancellation_backoff') or 0.0)
                if self._operator_gone(env, key[0], due + 0.01) or due >= self.horizon - 1 or env.owes():
                    continue
                acts = [p['name'] for tt, k, p in env.obs if k == 'user' and (inst['flag'] < tt or (not exact and inst['flag'] == tt)) and tt <= due + 0.001]   # (moved user actions can tie with the flag)
                if any(a.startswith(('label-a-on-yes', 'resume')) for a in acts):
                    continue    # the reason to stop went away again: no escalation is demanded
                if not exact and (inst['cancel'] is not None or due >= self.horizon - 4):
                    continue
                if inst['cancel'] is None:
                    # (the known defect: nobody escalates the stop of a daemon whose object is gone - whether it went while the daemon was being
                    #  stopped or, the DELETED event being the first notice, before the daemon was even told)
                    vanished = any(w['post'] is None and w['pre'] is not None and w['pre']['metadata']['uid'] == key[1] and w['t'] <= due
                                   for w in env.world.writes)
                    out.append(self.viol(env, 'never-cancelled', f"daemon {key[2]} got the stop flag at {inst['flag']} and ignores it; the cancellation due at {due} never came"
                                                                 + (" (the object vanished in between)" if vanished else ""),
                                         clause='stages', pattern='object-gone-while-stopping' if vanished else 'other'))
                elif inst['cancel'] != due and not any(a.startswith(('pause', 'stop', 'restart', 'kill')) for a in acts):
                    # further reasons to stop that concern the OBJECT (a deletion after a mismatch) do not restart the stages; a pause or an
                    # exit of the operator stops the daemons by its own in-memory procedure, staged from that moment (not judged for exactness)
                    out.append(self.viol(env, 'cancelled-late', f"daemon {key[2]} got the stop flag at {inst['flag']}; cancelled at {inst['cancel']}, due at {due}",
                                         clause='stages'))
        # the operator's exit is bounded: stopping the daemons takes no longer than their backoffs + timeouts (a daemon that
        # swallows cancellations and has NO timeout can hold it forever: that is C20's recorded finding, not judged here)
        if exact:
            exits = {p['op']: t for t, k, p in env.obs if k == 'pipeline-exit'}
            for t, k, p in env.obs:
                if k != 'stop':
                    continue
                op = p['op']
                mine = [(key, inst) for key, inst, t_end in ended if key[0] == op and inst['enter'] <= t and t_end > t] + \
                       [(key, inst) for key, inst in live.items() if key[0] == op and inst['enter'] <= t]
                budget, unbounded = 2.0, False
                for key, inst in mine:
                    h = spawned[key[2]]
                    if h['on'] != 'daemon':
                        continue
                    if h.get('reaction') == 'ignore' and h.get('cancellation_timeout') is None:
                        unbounded = True
                    budget += (h.get('cancellation_backoff') or 0.0) + (h.get('cancellation_timeout') or 0.0) + (h.get('exit_delay') or 0.0)
                if unbounded or t + budget >= self.horizon - 1 or env.owes():
                    continue
                if exits.get(op) is None or exits[op] > t + budget:
                    out.append(self.viol(env, 'exit-stalled', f"operator {op} was stopped at t={t}; with {len(mine)} spawned handler(s) alive its exit is due within "
                                                              f"{budget}s; it {'never exited' if exits.get(op) is None else 'exited at ' + str(exits[op])}",
                                         clause='never-stalls', what='exit'))
        # asked to stop when the object disappears (also when nothing held it: no finalizer / forced removal)
        if exact and not env.owes():
            gone: dict[str, float] = {}
            for w in env.world.writes:
                if w['post'] is None and w['pre'] is not None:
                    gone[w['pre']['metadata']['uid']] = w['t']
            for key, inst, t_end in ended + [(k2, i2, None) for k2, i2 in live.items()]:
                tg = gone.get(key[1])
                if tg is None or inst['enter'] > tg or (t_end is not None and t_end <= tg):
                    continue
                if self._operator_gone(env, key[0], tg + 0.01) or tg >= self.horizon - 1:
                    continue
                if inst['flag'] is None:
                    out.append(self.viol(env, 'not-stopped-when-gone', f"{spawned[key[2]]['on']} {key[2]} keeps running without a stop flag although its object "
                                                                       f"disappeared at {tg}", clause='stopped-on-disappearance'))
        # started when the matching object appears: in default timing, in the very instant of the first matching event
        if exact:
            first_match: dict[tuple[str, str], float] = {}
            probe = [(t, p) for t, k, p in env.obs if k == 'call' and p['id'] == 'ev']
            for t, p in probe:
                labels = (p['raw'].get('metadata') or {}).get('labels') or {}
                if 'deletionTimestamp' in p['raw'].get('metadata', {}):
                    continue
                for hid, h in spawned.items():
                    if h['on'] != 'daemon':
                        continue
                    if all(labels.get(a) == b for a, b in (h.get('labels') or {}).items()):
                        first_match.setdefault((p['op'], p['uid'], hid), t)  # type: ignore[arg-type]
            enters = {}
            for t, k, p in env.obs:
                if k == 'daemon-enter':
                    enters.setdefault((p['op'], p['uid'], p['id']), t)
            for key, tm in first_match.items():
                delay = spawned[key[2]].get('initial_delay') or 0.0
                te = enters.get(key)
                paused_then = self._paused_at(env, tm)
                if te is None:
                    if not paused_then and tm + delay < self.horizon - 1 and not self._operator_gone(env, key[0], tm + delay + 0.01) \
                            and not self._deleted_before(env, key[1], tm + delay):
                        out.append(self.viol(env, 'not-started', f"daemon {key[2]} never started although the object matched from t={tm}", clause='started-on-match'))
                elif te != tm + delay and not paused_then:
                    out.append(self.viol(env, 'started-late', f"daemon {key[2]} started at {te}, the object matched at {tm} (+ initial_delay {delay})", clause='started-on-match'))
        return out

    def _reason_to_stop(self, env: Env, h: dict, op: str, t: float) -> bool:
        """Has anything happened by `t` that can be a reason to stop an instance of this handler? (conservative: ever, not still)"""
        if self._operator_gone(env, op, t):
            return True
        for tt, k, p in env.obs:
            if tt > t:
                break
            if k == 'user':
                n = p['name']
                if n.startswith(('delete', 'strip', 'pause', 'stop', 'restart', 'kill')):
                    return True
                if n.startswith(('label', 'unlabel')) and not n.endswith('-yes') and h.get('labels'):
                    return True
        return False

    def _operator_gone(self, env: Env, op: str, t: float) -> bool:
        return any(k in ('stop', 'kill') and p.get('op') == op and tt <= t for tt, k, p in env.obs)

    def _paused_at(self, env: Env, t: float) -> bool:
        paused = False
        for tt, k, p in env.obs:
            if tt > t:
                break
            if k == 'user' and p['name'].startswith('pause'):
                paused = True
            if k == 'user' and p['name'].startswith('resume'):
                paused = False
        return paused

    def _deleted_before(self, env: Env, uid: str, t: float) -> bool:
        return any(w['verb'] in ('mark-deleted', 'delete') and (w['pre'] or {}).get('metadata', {}).get('uid') == uid and w['t'] <= t
                   for w in env.world.writes)


def histories(depth: int) -> list[list[tuple[str, ...]]]:
    alphabet: list[tuple[str, ...]] = [('label', 'a', 'on', 'no'), ('label', 'a', 'on', 'yes'), ('delete', 'a'), ('strip', 'a'),
                                       ('pause',), ('resume',), ('stop',)]
    out = []
    for d in range(1, depth + 1):
        for combo in itertools.product(alphabet, repeat=d):
            ok = True
            paused = False
            stopped = False
            deleted = False
            for i, a in enumerate(combo):
                if stopped:
                    ok = False
                if i and combo[i - 1] == a:
                    ok = False
                if a[0] == 'pause':
                    if paused:
                        ok = False
                    paused = True
                if a[0] == 'resume':
                    if not paused:
                        ok = False
                    paused = False
                if a[0] == 'stop':
                    stopped = True
                if a[0] == 'delete':
                    if deleted:
                        ok = False
                    deleted = True
                if a[0] == 'strip' and not (i and combo[i - 1][0] == 'delete') and not (i + 1 < len(combo) and combo[i + 1][0] == 'delete'):
                    ok = False
            if ok:
                out.append(list(combo))
    return out


def handler_sets(tier: str) -> list[tuple[str, list[dict]]]:
    sets: list[tuple[str, list[dict]]] = []
    filt = {'labels': {'on': 'yes'}}
    for reaction, backoff, timeout in list(itertools.product(['obeys', 'cancel', 'ignore'], [None, 2.0], [None, 3.0])) + \
            [('cancel', 3.0, 2.0), ('ignore', 3.0, 2.0), ('cancel', 2.0, 2.0)]:      # + a backoff not shorter than the timeout
        if tier == 'quick' and reaction == 'obeys' and (backoff, timeout) not in ((None, None), (2.0, 3.0)):
            continue
        sets.append((f'daemon[{reaction},{backoff},{timeout}]',
                     [dict(id='dm', on='daemon', reaction=reaction, exit_delay=0.0, cancellation_backoff=backoff, cancellation_timeout=timeout, **filt)]))
    sets.append(('daemon[cancel,slow-exit]', [dict(id='dm', on='daemon', reaction='cancel', exit_delay=1.0, cancellation_backoff=None, cancellation_timeout=3.0, **filt)]))
    # daemons that take their time to leave (2.5 s after the flag / 1.5 s after the cancellation): a pause or a label switched back shorter than that
    sets.append(('daemon[obeys,slow-exit]', [dict(id='dm', on='daemon', reaction='obeys', exit_delay=2.5, **filt)]))
    sets.append(('daemon[cancel,2.0,6.0,slow-exit]', [dict(id='dm', on='daemon', reaction='cancel', exit_delay=1.5, cancellation_backoff=2.0, cancellation_timeout=6.0, **filt)]))
    sets.append(('daemon[exits]', [dict(id='dm', on='daemon', reaction='exits', lifetime=2.0, **filt)]))
    sets.append(('daemon+initial-delay', [dict(id='dm', on='daemon', reaction='obeys', initial_delay=1.0, **filt)]))
    sets.append(('daemon+timer', [dict(id='dm', on='daemon', reaction='cancel', cancellation_backoff=2.0, cancellation_timeout=3.0, **filt),
                                  dict(id='tm', on='timer', interval=4.0, script=['ok~1'], **filt)]))
    # two spawned handlers of one object live and die separately: one exits on its own / stops matching, the other stays
    sets.append(('daemon[exits]+daemon[obeys]', [dict(id='dm', on='daemon', reaction='exits', lifetime=2.0, **filt),
                                                 dict(id='dm2', on='daemon', reaction='obeys', **filt)]))
    sets.append(('daemon[filtered]+daemon[unfiltered]', [dict(id='dm', on='daemon', reaction='obeys', **filt),
                                                         dict(id='dm2', on='daemon', reaction='exits', lifetime=9.0)]))
    sets.append(('daemon[exits]+timer', [dict(id='dm', on='daemon', reaction='exits', lifetime=2.0, **filt),
                                         dict(id='tm', on='timer', interval=4.0, script=['ok~1'], **filt)]))
    # a filtered daemon that needs cancellation, on an object that a (retrying) deletion handler keeps alive: a second reason to stop
    # (the deletion) arrives inside the backoff that the first one (the label) started
    sets.append(('daemon[cancel,4.0,3.0]+delete-handler', [dict(id='dm', on='daemon', reaction='cancel', exit_delay=0.0, cancellation_backoff=4.0, cancellation_timeout=3.0, **filt),
                                                            dict(id='d1', on='delete', script=['temp', 'temp', 'ok'])]))
    # a SYNCHRONOUS daemon (a thread: deaf to the flag here, cannot be interrupted): it stays one instance however often it is told to stop
    for duration, backoff, timeout in ((12.0, None, 30.0), (12.0, 2.0, 30.0), (9.0, None, 3.0)):
        sets.append((f'daemon[sync,{duration},{backoff},{timeout}]',
                     [dict(id='dm', on='daemon', body='sync', duration=duration, cancellation_backoff=backoff, cancellation_timeout=timeout, **filt)]))
    for name, tcfg in (('interval', dict(interval=4.0)), ('idle', dict(idle=3.0)), ('both', dict(interval=4.0, idle=3.0)), ('neither', dict()),
                       ('interval+initial', dict(interval=4.0, initial_delay=1.0)), ('idle+initial', dict(idle=3.0, initial_delay=1.0))):
        sets.append((f'timer[{name}]', [dict(id='tm', on='timer', script=['ok~1'], **tcfg, **filt)]))
    return sets


def build(hname: str, handlers: list[dict], history: list[tuple[str, ...]], spacing: float, **kw: Any) -> C09Scenario:
    hs = [dict(id='ev', on='event', script=['ok'])] + [dict(h) for h in handlers]
    t = 1.0
    user: list[tuple] = [(t, 'createl', 'a', 'on', 'yes')]
    t = 6.0 - spacing
    for a in history:
        t += spacing
        user.append((t, *a))
    return C09Scenario(handlers=hs, user=user, horizon=t + 16.0, hset=hname, history=[list(a) for a in history], spacing=spacing,
                       settings={'persistence__consistency_timeout': 5.0, 'background__cancellation_polling': 4}, **kw)


def run(tier: str, seed: int) -> CheckResult:
    depth = 2 if tier == 'quick' else 3
    sets = handler_sets(tier)
    hist = [build(n, hs, h, sp, delays=False, early_user=False, time_dev=False)
            for n, hs in sets for h in histories(depth) for sp in (6.0, 1.0)]
    reps = [build(n, hs, h, 1.0, grid=1.0) for n, hs in sets if n in ('daemon[cancel,2.0,3.0]', 'daemon+timer', 'timer[idle]', 'daemon[ignore,2.0,3.0]')
            for h in histories(2) if len(h) == 2 and h[0][0] in ('delete', 'pause', 'label')]
    # the operator pauses (exits) in the very instant in which an event of the object is being processed: every placement of the pause among
    # the loop's step boundaries of that processing (the worker stages the stop itself when it sees the pause; the killer's sweep comes later)
    inst = []
    for n, hs in sets:
        if n in ('daemon[cancel,2.0,3.0]', 'daemon[ignore,2.0,3.0]', 'daemon[obeys,2.0,3.0]', 'daemon+timer', 'daemon[cancel,None,3.0]'):
            for ops in ([('status', 'a', 1), ('pause',)], [('pause',), ('status', 'a', 1)], [('status', 'a', 1), ('stop',)],
                        [('label', 'a', 'l', 'v'), ('pause',)], [('status', 'a', 1), ('pause',), ('resume',)]):
                sc = build(n, hs, [], 1.0, dev_when_ready=True, delays=False, time_dev=False)
                params = dict(sc.params)
                params['user'] = [(1.0, 'createl', 'a', 'on', 'yes')] + [(6.0 if a[0] != 'resume' else 14.0, *a) for a in ops]
                params['horizon'] = 24.0
                inst.append(C09Scenario(**params))
            # ... with a second object of the kind: the killer's sweep goes from daemon to daemon, the workers run in between
            for ops in ([('pausestatus', 'b', 1)], [('pausestatus', 'a', 1)], [('pausestatus', 'b', 1), ('resume',)]):
                sc = build(n, hs, [], 1.0, dev_when_ready=True, delays=False, time_dev=False)
                params = dict(sc.params)
                params['user'] = [(1.0, 'createl', 'a', 'on', 'yes'), (2.0, 'createl', 'b', 'on', 'yes')] + [(6.0 if a[0] != 'resume' else 14.0, *a) for a in ops]
                params['horizon'] = 24.0
                inst.append(C09Scenario(**params))
    # the object disappears while its processing is throttled after an error: the event that marks it for deletion is skipped (only the latest
    # event is looked at when the pause is over), the finalizer is removed by force - the DELETED event is the first the operator hears of it
    thr = []
    for n, hs in sets:
        if n in ('daemon[obeys,None,None]', 'daemon[obeys,2.0,3.0]', 'daemon[cancel,2.0,3.0]', 'daemon[cancel,None,3.0]', 'daemon+timer', 'timer[interval]'):
            for gap1, gap2 in ((0.25, 0.5), (0.25, 0.25), (0.5, 0.25)):
                sc = build(n, hs, [], 1.0, delays=False, early_user=False, time_dev=False)
                params = dict(sc.params)
                params['handlers'] = [dict(h, script=['ok+note']) if h['id'] == 'ev' else h for h in params['handlers']]
                params['user'] = [(1.0, 'createl', 'a', 'on', 'yes'), (6.0, 'status', 'a', 1), (6.0 + gap1, 'delete', 'a'), (6.0 + gap1 + gap2, 'strip', 'a')]
                params['fail_window'] = [6.0, 6.1]
                params['horizon'] = 30.0
                params['settings'] = dict(params['settings'], queueing__error_delays=(2.0,))
                thr.append(C09Scenario(**params))
    if tier == 'quick':
        groups = [('histories', hist, 0, 70.0), ('timing', reps, 1, 40.0), ('pause-while-an-event-is-processed', inst, 1, 40.0), ('vanishes-while-throttled', thr, 0, 20.0)]
    else:
        groups = [('histories', hist, 0, 800.0), ('timing', reps, 2, 600.0), ('pause-while-an-event-is-processed', inst, 2, 600.0), ('vanishes-while-throttled', thr, 1, 200.0)]
    stats, viols, info, nscen = run_groups(groups, seed=seed)
    return CheckResult(
        prop='C09', tier=tier, seed=seed, stats=stats, violations=viols, scenarios=nscen,
        bound_requested=max(g[2] for g in groups), extra={'groups': info, 'handler_sets': [n for n, _ in sets], 'history_depth': depth},
        rule="handler sets: daemon reaction {obeys, needs cancellation, ignores both} x cancellation_backoff {None,2} x cancellation_timeout {None,3}, "
             "a slow-exiting daemon, a self-exiting daemon, a daemon with initial_delay, daemon+timer, timers {interval, idle, both, neither, "
             "with initial_delay}; histories to depth 2 (quick) / 3 over {label off/on, delete, forced finalizer strip, pause, resume, operator "
             "exit} in spacings 6s / 1s; timing group: deviation-bounded search with a 1.0 grid; every execution runs under a wall-clock "
             "watchdog (a step that does not return is a stall); non-trivial = outcome differs from the default schedule",
        assumptions=["'same instant' clauses are judged in virtual time on default-timing executions only",
                     "abandonment itself is not observable from outside; the finalizer side of it is judged by C06"])


def scenario_from(name: str, params: dict[str, Any]) -> Scenario:
    return C09Scenario(**params)


def replay(rec: dict[str, Any]) -> int:
    sc = scenario_from(rec['scenario'], rec['params'])
    env = execute(sc, rec['labels'])
    viols = getattr(env, 'violations', [])
    for t, k, p in env.obs:
        if k in ('call', 'ret', 'user', 'kill', 'start', 'stop', 'daemon-enter', 'daemon-flag', 'daemon-exit', 'daemon-cancelled', 'pipeline-error') and p.get('id') != 'ev':
            print(f'{t:8.3f} {k:16s}', {kk: vv for kk, vv in p.items() if kk in ('id', 'retry', 'outcome', 'name', 'how', 'reason', 'op', 'error', 'inst')})
    for v in viols:
        print('VIOLATION', v.kind, v.message)
    return 1 if viols else 0
