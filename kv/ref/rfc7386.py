"""Independent JSON merge-patch (RFC 7386)."""
import copy
from typing import Any


def merge(target: Any, patch: Any) -> Any:
    """Return MergePatch(target, patch); inputs are not mutated."""
    if not isinstance(patch, dict):
        return copy.deepcopy(patch)
    result = dict(target) if isinstance(target, dict) else {}
    for name, value in patch.items():
        if value is None:
            result.pop(name, None)
        else:
            result[name] = merge(result.get(name), value)
    # values not touched by the patch are shared with `target`; copy to detach.
    return {k: (v if k in patch else copy.deepcopy(v)) for k, v in result.items()}


def strip_nulls(value: Any) -> Any:
    """What a server persists: a merge-patch never stores null members."""
    if isinstance(value, dict):
        return {k: strip_nulls(v) for k, v in value.items() if v is not None}
    return value


def selftest() -> None:
    # RFC 7386 appendix A.
    vectors = [
        ({"a": "b"}, {"a": "c"}, {"a": "c"}),
        ({"a": "b"}, {"b": "c"}, {"a": "b", "b": "c"}),
        ({"a": "b"}, {"a": None}, {}),
        ({"a": "b", "b": "c"}, {"a": None}, {"b": "c"}),
        ({"a": ["b"]}, {"a": "c"}, {"a": "c"}),
        ({"a": "c"}, {"a": ["b"]}, {"a": ["b"]}),
        ({"a": {"b": "c"}}, {"a": {"b": "d", "c": None}}, {"a": {"b": "d"}}),
        ({"a": [{"b": "c"}]}, {"a": [1]}, {"a": [1]}),
        (["a", "b"], ["c", "d"], ["c", "d"]),
        ({"a": "b"}, ["c"], ["c"]),
        ({"a": "foo"}, None, None),
        ({"a": "foo"}, "bar", "bar"),
        ({"e": None}, {"a": 1}, {"e": None, "a": 1}),
        ([1, 2], {"a": "b", "c": None}, {"a": "b"}),
        ({}, {"a": {"bb": {"ccc": None}}}, {"a": {"bb": {}}}),
    ]
    for target, patch, expected in vectors:
        got = merge(target, patch)
        assert got == expected, (target, patch, got, expected)
