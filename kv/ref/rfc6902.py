"""Independent JSON patch (RFC 6902) with JSON pointers (RFC 6901)."""
import copy
from typing import Any


class PatchError(Exception):
    pass


class TestFailed(PatchError):
    pass


def _parse(pointer: str) -> list[str]:
    if pointer == '':
        return []
    if not pointer.startswith('/'):
        raise PatchError(f"bad pointer {pointer!r}")
    return [p.replace('~1', '/').replace('~0', '~') for p in pointer[1:].split('/')]


def json_equal(a: Any, b: Any) -> bool:
    """JSON equality: booleans are not numbers; 1 == 1.0."""
    if isinstance(a, bool) or isinstance(b, bool):
        return isinstance(a, bool) and isinstance(b, bool) and a == b
    if isinstance(a, dict) and isinstance(b, dict):
        return a.keys() == b.keys() and all(json_equal(a[k], b[k]) for k in a)
    if isinstance(a, list) and isinstance(b, list):
        return len(a) == len(b) and all(json_equal(x, y) for x, y in zip(a, b))
    if isinstance(a, (dict, list)) or isinstance(b, (dict, list)):
        return False
    return a == b and (a is None) == (b is None)


def _get(doc: Any, parts: list[str]) -> Any:
    cur = doc
    for p in parts:
        if isinstance(cur, dict):
            if p not in cur:
                raise PatchError(f"no member {p!r}")
            cur = cur[p]
        elif isinstance(cur, list):
            i = _index(p, len(cur), allow_end=False)
            cur = cur[i]
        else:
            raise PatchError(f"cannot descend into scalar at {p!r}")
    return cur


def _index(p: str, n: int, allow_end: bool) -> int:
    if p == '-' and allow_end:
        return n
    if not p.isdigit() or (len(p) > 1 and p[0] == '0'):
        raise PatchError(f"bad array index {p!r}")
    i = int(p)
    if i > n or (i == n and not allow_end):
        raise PatchError(f"index {i} out of range")
    return i


def _add(doc: Any, parts: list[str], value: Any) -> Any:
    if not parts:
        return value
    parent = _get(doc, parts[:-1])
    last = parts[-1]
    if isinstance(parent, dict):
        parent[last] = value
    elif isinstance(parent, list):
        parent.insert(_index(last, len(parent), allow_end=True), value)
    else:
        raise PatchError("add into scalar")
    return doc


def _remove(doc: Any, parts: list[str]) -> Any:
    if not parts:
        raise PatchError("cannot remove the root")
    parent = _get(doc, parts[:-1])
    last = parts[-1]
    if isinstance(parent, dict):
        if last not in parent:
            raise PatchError(f"no member {last!r} to remove")
        del parent[last]
    elif isinstance(parent, list):
        del parent[_index(last, len(parent), allow_end=False)]
    else:
        raise PatchError("remove from scalar")
    return doc


def apply(doc: Any, ops: list[dict[str, Any]]) -> Any:
    """Apply all ops atomically; returns a new document or raises."""
    doc = copy.deepcopy(doc)
    for op in ops:
        kind = op.get('op')
        parts = _parse(op['path'])
        if kind == 'add':
            doc = _add(doc, parts, copy.deepcopy(op['value']))
        elif kind == 'remove':
            doc = _remove(doc, parts)
        elif kind == 'replace':
            _get(doc, parts)  # must exist
            if parts:
                doc = _remove(doc, parts)
            doc = _add(doc, parts, copy.deepcopy(op['value']))
        elif kind == 'move':
            src = _parse(op['from'])
            val = _get(doc, src)
            doc = _remove(doc, src)
            doc = _add(doc, parts, val)
        elif kind == 'copy':
            val = copy.deepcopy(_get(doc, _parse(op['from'])))
            doc = _add(doc, parts, val)
        elif kind == 'test':
            try:
                cur = _get(doc, parts)
            except PatchError as e:
                raise TestFailed(str(e))
            if not json_equal(cur, op.get('value')):
                raise TestFailed(f"test failed at {op['path']}: {cur!r} != {op.get('value')!r}")
        else:
            raise PatchError(f"unknown op {kind!r}")
    return doc


def selftest() -> None:
    # RFC 6902 appendix A (selection).
    assert apply({"foo": "bar"}, [{"op": "add", "path": "/baz", "value": "qux"}]) == {"baz": "qux", "foo": "bar"}
    assert apply({"foo": ["bar", "baz"]}, [{"op": "add", "path": "/foo/1", "value": "qux"}]) == {"foo": ["bar", "qux", "baz"]}
    assert apply({"baz": "qux", "foo": "bar"}, [{"op": "remove", "path": "/baz"}]) == {"foo": "bar"}
    assert apply({"foo": ["bar", "qux", "baz"]}, [{"op": "remove", "path": "/foo/1"}]) == {"foo": ["bar", "baz"]}
    assert apply({"baz": "qux", "foo": "bar"}, [{"op": "replace", "path": "/baz", "value": "boo"}]) == {"baz": "boo", "foo": "bar"}
    assert apply({"foo": {"bar": "baz", "waldo": "fred"}, "qux": {"corge": "grault"}},
                 [{"op": "move", "from": "/foo/waldo", "path": "/qux/thud"}]) == {"foo": {"bar": "baz"}, "qux": {"corge": "grault", "thud": "fred"}}
    assert apply({"foo": ["all", "grass", "cows", "eat"]}, [{"op": "move", "from": "/foo/1", "path": "/foo/3"}]) == {"foo": ["all", "cows", "eat", "grass"]}
    apply({"baz": "qux", "foo": ["a", 2, "c"]}, [{"op": "test", "path": "/baz", "value": "qux"}, {"op": "test", "path": "/foo/1", "value": 2}])
    for bad in ([{"op": "test", "path": "/baz", "value": "bar"}], ):
        try:
            apply({"baz": "qux"}, bad)
        except TestFailed:
            pass
        else:
            raise AssertionError("test must fail")
    assert apply({"foo": "bar"}, [{"op": "add", "path": "/child", "value": {"grandchild": {}}}]) == {"foo": "bar", "child": {"grandchild": {}}}
    try:
        apply({"foo": "bar"}, [{"op": "add", "path": "/baz/bat", "value": "qux"}])
    except PatchError:
        pass
    else:
        raise AssertionError("must fail")
    assert apply({"/": 9, "~1": 10}, [{"op": "test", "path": "/~01", "value": 10}]) == {"/": 9, "~1": 10}
    try:
        apply({"/": 9, "~1": 10}, [{"op": "test", "path": "/~01", "value": "10"}])
    except TestFailed:
        pass
    else:
        raise AssertionError("must fail")
    assert apply({"foo": ["bar"]}, [{"op": "add", "path": "/foo/-", "value": ["abc", "def"]}]) == {"foo": ["bar", ["abc", "def"]]}
    assert not json_equal(1, True) and json_equal(1, 1.0) and not json_equal(None, 0)
