"""
Check runner: parallel exploration, proof obligations, known-findings matching, evidence.
"""
from __future__ import annotations

import dataclasses
import hashlib
import json
import multiprocessing
import os
import sys
import time
from typing import Any, Callable, Iterable

from kv.explorer import Scenario, Stats, Violation, execute, explore, _jsonable
from kv.vloop import HarnessError

ROOT = os.path.dirname(os.path.dirname(os.path.abspath(__file__)))
CORES = int(os.environ.get('KV_CORES', '16'))


@dataclasses.dataclass
class CheckResult:
    prop: str
    tier: str
    seed: int
    stats: Stats
    violations: list[Violation]
    scenarios: int = 0
    bound_requested: int = 0
    rule: str = ''
    assumptions: list[str] = dataclasses.field(default_factory=list)
    exhaustive: bool = True
    extra: dict[str, Any] = dataclasses.field(default_factory=dict)
    level: str = 'model_checking'


# ---- parallel timing search ------------------------------------------------------------------

_SCENARIOS: list[Scenario] = []


def _job(args: tuple[int, list[str], int, int, int, float | None, int, str | None]) -> tuple[Stats, list[Violation]]:
    sidx, prefix, devs0, start, bound, deadline, rotate, default_outcome = args
    sc = _SCENARIOS[sidx]
    from kv import explorer
    stats = Stats()
    violations: dict[str, Violation] = {}
    # Same DFS as explorer.explore, but continuing from a prefix with its own start index.
    stack = [(prefix, devs0, start)]
    import time as _t
    while stack:
        if deadline is not None and _t.time() > deadline:
            stats.capped = True
            break
        pfx, devs, st = stack.pop()
        env = execute(sc, pfx)
        explorer._account(stats, env, devs, default_outcome)
        for v in getattr(env, 'violations', []):
            v.labels = list(env.labels)
            v.deviations = [d for _, d in env.deviations]
            if v.key() not in violations:
                v.trace = [(round(t, 6), k, _jsonable(p)) for t, k, p in env.obs][-120:]
                violations[v.key()] = v
        if devs < bound:
            children = []
            for i in range(st, len(env.points)):
                choice, acts = env.points[i]
                for alt in acts:
                    if alt != choice:
                        children.append((env.labels[:i] + [alt], devs + 1, i + 1))
            stack.extend(reversed(children))
    return stats, list(violations.values())


def _root_job(args: tuple[int, float]) -> tuple[int, Any, list[Violation]]:
    """The default (0-deviation) execution of one scenario, in a worker."""
    sidx, deadline = args
    if time.time() > deadline:
        return sidx, None, []
    sc = _SCENARIOS[sidx]
    env = execute(sc)
    viols = []
    for v in getattr(env, 'violations', []):
        v.labels = list(env.labels)
        v.trace = [(round(t, 6), k, _jsonable(p)) for t, k, p in env.obs][-120:]
        viols.append(v)
    root = _Root(env.labels, env.points, env.fps, env.end_reason, env.deviations, od=env.outcome_digest(),
                 sample={'scenario': sc.name, 'params': _jsonable(sc.params), 'deviations': [],
                         'choice_points': len(env.points), 'end': env.end_reason, 'labels_head': env.labels[:12]})
    return sidx, root, viols


def canary(sc: Scenario) -> None:
    """Proof obligation 1: the default execution is reproducible (run twice, sleep in between)."""
    a = execute(sc)
    time.sleep(0.05)
    b = execute(sc)
    if a.trace_digest() != b.trace_digest():
        for i, (x, y) in enumerate(zip(a.obs, b.obs)):
            if x != y:
                raise HarnessError(f"determinism canary failed for {sc.name} {sc.params}: obs[{i}] {x!r} != {y!r}")
        raise HarnessError(f"determinism canary failed for {sc.name} {sc.params} (labels/requests differ)")


def explore_parallel(scenarios: list[Scenario], bound: int, *, time_cap: float, seed: int = 0,
                     min_bound: int = 0) -> tuple[Stats, list[Violation], int]:
    """Iteratively deepen the deviation bound over all scenarios on all cores.

    Returns (stats of the deepest pass started, violations, highest bound completed)."""
    global _SCENARIOS
    _SCENARIOS = scenarios
    t_end = time.time() + time_cap
    if scenarios:
        canary(scenarios[seed % len(scenarios)])
    total = Stats()
    all_viol: dict[str, Violation] = {}
    completed = -1
    # level 0 in the master: it also provides the first-level jobs.
    roots = []
    root_capped = False
    import gc
    gc.collect()
    gc.freeze()  # forked workers must not touch (and copy) the inherited heap
    deadline0 = t_end + 30
    with multiprocessing.get_context('fork').Pool(min(CORES, max(1, len(scenarios)))) as pool:
        jobs0 = [(sidx, deadline0) for sidx in range(len(scenarios))]
        for sidx, root, viols0 in pool.imap(_root_job, jobs0, chunksize=max(1, len(jobs0) // (CORES * 8))):
            if root is None:
                root_capped = True   # even the default schedules did not fit into the budget: report it
                continue
            roots.append((sidx, root, root.od))
            for v in viols0:
                all_viol.setdefault(v.key(), v)
    total.merge(_copy_level0(roots))
    completed = 0 if not root_capped else -1
    total.capped = root_capped
    final = total
    for b in range(max(1, min_bound), bound + 1):
        if time.time() > t_end or root_capped:
            break
        jobs = []
        for sidx, env, d0 in roots:
            for i, (choice, acts) in enumerate(env.points):
                for alt in acts:
                    if alt != choice:
                        jobs.append((sidx, env.labels[:i] + [alt], 1, i + 1, b, t_end, 0, d0))
        if seed and jobs:
            r = (seed * 7919) % len(jobs)
            jobs = jobs[r:] + jobs[:r]
        level = Stats()
        level.merge(_copy_level0(roots))
        with multiprocessing.get_context('fork').Pool(min(CORES, max(1, len(jobs)))) as pool:
            for st, viols in pool.imap_unordered(_job, jobs, chunksize=1):
                level.merge(st)
                for v in viols:
                    all_viol.setdefault(v.key(), v)
        final = level
        if level.capped:
            break
        completed = b
    final.bound_completed = completed
    return final, list(all_viol.values()), completed


@dataclasses.dataclass
class _Root:
    labels: list[str]
    points: list[Any]
    fps: list[int]
    end_reason: str
    deviations: list[Any]
    od: str = ''
    sample: Any = None


def run_groups(groups: list[tuple[str, list[Scenario], int, float]], seed: int = 0
               ) -> tuple[Stats, list[Violation], list[dict[str, Any]], int]:
    """Several scenario families with their own deviation bounds and time caps."""
    total = Stats()
    viols: dict[str, Violation] = {}
    info = []
    nscen = 0
    total.bound_completed = 10 ** 6
    only = [g for g in os.environ.get('KV_ONLY_GROUPS', '').split(',') if g]      # development aid: run some groups only / with scaled time caps
    scale = float(os.environ.get('KV_CAP_SCALE', '1') or 1)
    for name, scs, bound, cap in groups:
        if only and name not in only:
            continue
        st, vs, completed = explore_parallel(scs, bound, time_cap=cap * scale, seed=seed)
        total.merge(st)
        total.bound_completed = min(total.bound_completed, completed)
        for v in vs:
            viols.setdefault(v.key(), v)
        nscen += len(scs)
        info.append({'group': name, 'scenarios': len(scs), 'bound_requested': bound, 'bound_completed': completed,
                     'executions': st.executions, 'capped': st.capped,
                     'executions_by_deviations': {str(k): v for k, v in sorted(st.by_devs.items())}})
        global _ALL_SCENARIOS
        _ALL_SCENARIOS = _ALL_SCENARIOS + list(scs)
    if not groups:
        total.bound_completed = 0
    return total, list(viols.values()), info, nscen


_ALL_SCENARIOS: list[Scenario] = []


def default_reverify(v: Violation) -> bool:
    """Proof obligation 3: a violation must reproduce from its recorded label sequence."""
    for sc in _ALL_SCENARIOS or _SCENARIOS:
        if sc.name == v.scenario and _jsonable(sc.params) == _jsonable(v.params):
            env = execute(sc, v.labels)
            return any(x.key() == v.key() for x in getattr(env, 'violations', []))
    raise HarnessError(f"scenario {v.scenario} {v.params} not found for re-verification")


def _copy_level0(roots: list[Any]) -> Stats:
    st = Stats()
    for sidx, root, d0 in roots:
        st.executions += 1
        st.points += len(root.points)
        st.by_devs[0] = st.by_devs.get(0, 0) + 1
        st.end_reasons[root.end_reason] = st.end_reasons.get(root.end_reason, 0) + 1
        prev = None
        for fp, (choice, _) in zip(root.fps, root.points):
            st.states.add(fp)
            if prev is not None:
                st.transitions.add(hash((prev[0], prev[1], fp)))
            prev = (fp, choice.split(':', 2)[0:2].__repr__())
        st.outcomes.add(root.od)
        if len(st.samples) < 3:
            st.samples.append(root.sample)
    return st


def parallel_map(fn: Callable[[Any], Any], items: list[Any], chunksize: int = 1) -> Iterable[Any]:
    if len(items) <= 1 or CORES <= 1:
        for it in items:
            yield fn(it)
        return
    with multiprocessing.get_context('fork').Pool(min(CORES, len(items))) as pool:
        yield from pool.imap_unordered(fn, items, chunksize=chunksize)


# ---- findings ----------------------------------------------------------------------------------

def load_known() -> list[dict[str, Any]]:
    path = os.path.join(ROOT, 'known_findings.json')
    if not os.path.exists(path):
        return []
    with open(path) as f:
        return json.load(f)['findings']


def match_known(v: Violation, known: list[dict[str, Any]]) -> dict[str, Any] | None:
    for k in known:
        if k.get('status') == 'open' and k['property'] == v.prop and k['signature'] == _jsonable(v.signature):
            return k
    return None


def write_replay(v: Violation) -> str:
    OUT = os.environ.get('KV_OUT') or ROOT   # scratch trials (KV_REPO=<worktree>) write elsewhere
    os.makedirs(os.path.join(OUT, 'replays'), exist_ok=True)
    h = hashlib.sha256(v.key().encode()).hexdigest()[:10]
    path = os.path.join(OUT, 'replays', f'{v.prop}-{h}.json')
    with open(path, 'w') as f:
        json.dump(dict(property=v.prop, kind=v.kind, message=v.message, signature=_jsonable(v.signature),
                       scenario=v.scenario, params=_jsonable(v.params), labels=v.labels,
                       deviations=v.deviations, trace=_jsonable(v.trace)), f, indent=1, default=repr)
    test = os.path.join(OUT, 'replays', f'{v.prop}-{h}_test.py')
    with open(test, 'w') as f:
        f.write(f'''"""Replays one recorded execution without the explorer. Run: /verif/run replay {path}"""
import json, subprocess, sys
sys.exit(subprocess.call(['/verif/run', 'replay', {path!r}]))
''')
    return path


# ---- evidence ----------------------------------------------------------------------------------

def write_evidence(res: CheckResult, wall: float, new_violations: int) -> str:
    st = res.stats
    cov: dict[str, Any] = {
        'states': max(1, len(st.states)),
        'transitions': max(1, len(st.transitions)),
        'traces_validated_against_impl': st.executions,
        'samples': st.samples or [{'note': 'no executions'}],
        'evaluations': st.executions,
        'distinct_nontrivial': len(st.nontrivial),
        'distinct_outcomes': len(st.outcomes),
        'choice_points': st.points,
        'rule': res.rule,
        'scenarios': res.scenarios,
        'deviation_bound_requested': res.bound_requested,
        'deviation_bound_completed': st.bound_completed,
        'executions_by_deviations': {str(k): v for k, v in sorted(st.by_devs.items())},
        'end_reasons': st.end_reasons,
        'capped': st.capped,
        'exhaustive': bool(res.exhaustive and not st.capped),
        'explanation': 'every explored trace is an execution of the real kopf code under the virtual '
                       'loop and fake API server, so each one is validated against the implementation',
    }
    cov.update(res.extra)
    ev = {
        'property_id': res.prop, 'tier': res.tier, 'seed': res.seed, 'level': res.level,
        'coverage': cov, 'assumptions': res.assumptions, 'wall_s': round(wall, 3),
        'violations': new_violations,
    }
    OUT = os.environ.get('KV_OUT') or ROOT
    os.makedirs(os.path.join(OUT, 'evidence'), exist_ok=True)
    path = os.path.join(OUT, 'evidence', f'{res.prop}.json')
    with open(path, 'w') as f:
        json.dump(ev, f, indent=1, default=repr)
    return path


def finish(res: CheckResult, t0: float, reverify: Callable[[Violation], bool] | None = None) -> int:
    known = load_known()
    printed_known: set[str] = set()
    new = 0
    for v in res.violations:
        k = match_known(v, known)
        if k is not None:
            if k['id'] not in printed_known:
                printed_known.add(k['id'])
                print(f"KNOWN-FINDING: property={v.prop} {k['id']}: {k['what']}")
            continue
        if v.labels is not None and not (reverify or default_reverify)(v):
            raise HarnessError(f"violation did not reproduce on replay: {v.kind}: {v.message}")
        path = write_replay(v)
        new += 1
        print(f"VIOLATION property={v.prop} replay={path}")
        print(f"  kind={v.kind} scenario={v.scenario} params={_jsonable(v.params)}")
        print(f"  {v.message}")
        if v.deviations:
            print(f"  deviations={v.deviations}")
    wall = time.time() - t0
    path = write_evidence(res, wall, new)
    st = res.stats
    print(f"[{res.prop}] tier={res.tier} seed={res.seed} scenarios={res.scenarios} executions={st.executions} "
          f"states={len(st.states)} transitions={len(st.transitions)} outcomes={len(st.outcomes)} "
          f"nontrivial={len(st.nontrivial)} bound={st.bound_completed}/{res.bound_requested} capped={st.capped} "
          f"wall={wall:.1f}s violations={new} known={len(printed_known)} evidence={path}")
    return 1 if new else 0
