"""
Seams for the nondeterminism that a virtual event loop does not own (DESIGN.md §3):
the wall clock (``datetime.datetime.now``) and ``random`` in the kopf modules that use them.
"""
from __future__ import annotations

import datetime as _real_datetime
import importlib
import logging
import random as _real_random
from typing import Any, Callable

from kv.world import EPOCH

CLOCK: Callable[[], float] = lambda: 0.0
RANDINT: Callable[[int, int], int] = lambda a, b: a


class VDateTime(_real_datetime.datetime):
    @classmethod
    def now(cls, tz: Any = None) -> _real_datetime.datetime:  # type: ignore[override]
        t = EPOCH + _real_datetime.timedelta(seconds=CLOCK())
        return t.astimezone(tz) if tz is not None else t.replace(tzinfo=None)

    @classmethod
    def utcnow(cls) -> _real_datetime.datetime:  # type: ignore[override]
        return (EPOCH + _real_datetime.timedelta(seconds=CLOCK())).replace(tzinfo=None)


class _DatetimeShim:
    datetime = VDateTime
    timedelta = _real_datetime.timedelta
    timezone = _real_datetime.timezone
    date = _real_datetime.date
    time = _real_datetime.time
    tzinfo = _real_datetime.tzinfo
    UTC = _real_datetime.timezone.utc


class _RandomShim:
    @staticmethod
    def randint(a: int, b: int) -> int:
        return RANDINT(a, b)

    @staticmethod
    def choice(seq: Any) -> Any:
        return list(seq)[0]

    @staticmethod
    def choices(seq: Any, k: int = 1) -> Any:
        return [list(seq)[0]] * k

    @staticmethod
    def sample(seq: Any, k: int) -> Any:
        return list(seq)[:k]

    @staticmethod
    def random() -> float:
        return 0.0


DATETIME_MODULES = [
    'kopf._core.actions.progression',
    'kopf._core.actions.application',
    'kopf._core.engines.peering',
    'kopf._cogs.structs.credentials',
]
RANDOM_MODULES = [
    'kopf._core.actions.lifecycles',
    'kopf._core.engines.peering',
    'kopf._cogs.structs.credentials',
]

_installed = False


def install() -> None:
    """Patch the seams once per process; verify that each still exists (proof obligation 4)."""
    global _installed
    if _installed:
        return
    from kv.vloop import HarnessError
    for name in DATETIME_MODULES:
        mod = importlib.import_module(name)
        if getattr(mod, 'datetime', None) is not _real_datetime and not isinstance(getattr(mod, 'datetime', None), _DatetimeShim):
            raise HarnessError(f"{name} no longer references the `datetime` module by that name")
        mod.datetime = _DatetimeShim()  # type: ignore[attr-defined]
    for name in RANDOM_MODULES:
        mod = importlib.import_module(name)
        if getattr(mod, 'random', None) is not _real_random and not isinstance(getattr(mod, 'random', None), _RandomShim):
            raise HarnessError(f"{name} no longer references the `random` module by that name")
        mod.random = _RandomShim()  # type: ignore[attr-defined]
    # Several operators share one loop here, while in reality each is a process of its own: kopf's exit
    # routine treats EVERY task of the loop that appeared after its start as its own "hung" task and cancels
    # it. The process boundary is restored by showing each operator only the tasks of its own process.
    import asyncio
    from kopf._cogs.aiokits import aiotasks
    from kv.vloop import OPID
    if not hasattr(aiotasks, 'all_tasks'):
        raise HarnessError("kopf._cogs.aiokits.aiotasks.all_tasks is gone: the process-boundary seam must be revisited")

    async def all_tasks(*, ignored: Any = frozenset()) -> Any:
        current = asyncio.current_task()
        mine = OPID.get()
        return {task for task in asyncio.all_tasks()
                if task is not current and task not in ignored and task.get_context().get(OPID) == mine}
    aiotasks.all_tasks = all_tasks  # type: ignore[assignment]
    # The wall clock must not leak through other modules either: list what else uses it.
    logging.disable(logging.CRITICAL)
    _installed = True


def set_clock(clock: Callable[[], float]) -> None:
    global CLOCK
    CLOCK = clock


def set_randint(fn: Callable[[int, int], int]) -> None:
    global RANDINT
    RANDINT = fn
