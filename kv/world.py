"""
World: a single-threaded in-memory Kubernetes API server + the duck-typed aiohttp session
through which kopf talks to it (see DESIGN.md §2.2). Every line of semantics here is part of
the trusted base; `selftest()` exercises each of them.
"""
from __future__ import annotations

import asyncio
import collections
import copy
import dataclasses
import datetime
import json
import urllib.parse
from typing import Any, Callable

import aiohttp

from kv.ref import rfc6902, rfc7386
from kv.vloop import OPID

EPOCH = datetime.datetime(2030, 1, 1, 0, 0, 0, tzinfo=datetime.timezone.utc)


def iso(t: float) -> str:
    return (EPOCH + datetime.timedelta(seconds=t)).strftime('%Y-%m-%dT%H:%M:%SZ')


@dataclasses.dataclass(frozen=True)
class Kind:
    group: str
    version: str
    plural: str
    kind: str
    singular: str
    namespaced: bool
    subresources: frozenset[str] = frozenset()
    verbs: tuple[str, ...] = ('get', 'list', 'watch', 'patch', 'create', 'delete', 'update')
    short: tuple[str, ...] = ()
    categories: tuple[str, ...] = ()

    @property
    def key(self) -> tuple[str, str, str]:
        return (self.group, self.version, self.plural)

    @property
    def api_version(self) -> str:
        return f'{self.group}/{self.version}' if self.group else self.version

    def base_path(self) -> str:
        return f'/api/{self.version}' if not self.group else f'/apis/{self.group}/{self.version}'


NAMESPACES = Kind('', 'v1', 'namespaces', 'Namespace', 'namespace', False)
EVENTS = Kind('', 'v1', 'events', 'Event', 'event', True)
CRDS = Kind('apiextensions.k8s.io', 'v1', 'customresourcedefinitions', 'CustomResourceDefinition',
            'customresourcedefinition', False)
KEX = Kind('kopf.dev', 'v1', 'kopfexamples', 'KopfExample', 'kopfexample', True,
           short=('kex',))
KEX_SUB = dataclasses.replace(KEX, subresources=frozenset({'status'}))
KEX2 = Kind('kopf.dev', 'v1', 'kopfwidgets', 'KopfWidget', 'kopfwidget', True)
CLUSTER_PEERING = Kind('kopf.dev', 'v1', 'clusterkopfpeerings', 'ClusterKopfPeering',
                       'clusterkopfpeering', False)
NS_PEERING = Kind('kopf.dev', 'v1', 'kopfpeerings', 'KopfPeering', 'kopfpeering', True)
KEX_CLUSTER = Kind('kopf.dev', 'v1', 'kopfclusterthings', 'KopfClusterThing', 'kopfclusterthing', False)
REPLICASETS = Kind('apps', 'v1', 'replicasets', 'ReplicaSet', 'replicaset', True, short=('rs',))


class FakeRequestInfo:
    def __init__(self, url: str, method: str) -> None:
        self.real_url = url
        self.url = url
        self.method = method
        self.headers: dict[str, str] = {}


class FakeContent:
    """The `response.content` of a streaming response."""

    def __init__(self, response: "FakeResponse") -> None:
        self._response = response

    async def iter_chunked(self, n: int) -> Any:
        r = self._response
        if r._stream is None:
            if r._body_bytes:
                yield r._body_bytes
            return
        s = r._stream
        while True:
            if s.buffer:
                yield s.buffer.popleft()
                continue
            if s.error is not None:
                err, s.error = s.error, None
                s.open = False
                s.closed_at = s.closed_at if s.closed_at is not None else getattr(s, 'clock', lambda: 0.0)()
                raise err
            if s.eof:
                s.open = False
                s.closed_at = s.closed_at if s.closed_at is not None else getattr(s, 'clock', lambda: 0.0)()
                return
            if r._closed:
                s.open = False
                s.closed_at = s.closed_at if s.closed_at is not None else getattr(s, 'clock', lambda: 0.0)()
                raise aiohttp.ClientConnectionError("Connection closed")
            s.waiter = asyncio.get_running_loop().create_future()
            try:
                await s.waiter
            finally:
                s.waiter = None


class FakeResponse(aiohttp.ClientResponse):
    """Duck-typed response. Subclasses ClientResponse only for kopf's isinstance() checks."""

    def __init__(self, *, status: int, headers: dict[str, str] | None, body: Any,
                 url: str, method: str, stream: "Stream | None" = None) -> None:
        # NB: the base constructor is intentionally not called.
        self._kv_status = status
        self._kv_headers = dict(headers or {})
        self._kv_body = body
        self._closed = False
        self._stream = stream
        self._body_bytes = b''
        self._kv_request_info = FakeRequestInfo(url, method)
        self._kv_content = FakeContent(self)

    def __del__(self, _warnings: Any = None) -> None:
        pass

    def __repr__(self) -> str:
        return f'<FakeResponse {self._kv_status} {self._kv_request_info.url}>'

    @property
    def status(self) -> int:  # type: ignore[override]
        return self._kv_status

    @status.setter
    def status(self, value: int) -> None:
        self._kv_status = value

    @property
    def headers(self) -> Any:  # type: ignore[override]
        return self._kv_headers

    @property
    def content(self) -> Any:  # type: ignore[override]
        return self._kv_content

    @property
    def closed(self) -> bool:
        return self._closed

    @property
    def request_info(self) -> Any:  # type: ignore[override]
        return self._kv_request_info

    @property
    def history(self) -> Any:  # type: ignore[override]
        return ()

    async def json(self, **_: Any) -> Any:  # type: ignore[override]
        if isinstance(self._kv_body, (dict, list)):
            return json.loads(json.dumps(self._kv_body))
        raise aiohttp.ContentTypeError(self._kv_request_info, (), message="not json")  # type: ignore[arg-type]

    async def text(self, **_: Any) -> str:  # type: ignore[override]
        return self._kv_body if isinstance(self._kv_body, str) else json.dumps(self._kv_body)

    async def read(self) -> bytes:
        return (await self.text()).encode('utf-8')

    def raise_for_status(self) -> None:
        if self._kv_status >= 400:
            self.release()
            raise aiohttp.ClientResponseError(
                self._kv_request_info, (), status=self._kv_status,  # type: ignore[arg-type]
                message='fake', headers=self._kv_headers)  # type: ignore[arg-type]

    def close(self) -> None:
        if self._closed:
            return
        self._closed = True
        s = self._stream
        if s is not None:
            s.client_closed = True
            if s.closed_at is None:
                s.closed_at = s.clock()  # type: ignore[attr-defined]
            if s.waiter is not None and not s.waiter.done():
                s.waiter.set_exception(aiohttp.ClientConnectionError("Connection closed"))
            else:
                s.open = False

    def release(self) -> Any:
        self.close()

    async def __aenter__(self) -> "FakeResponse":
        return self

    async def __aexit__(self, *exc: Any) -> None:
        self.close()


@dataclasses.dataclass
class Stream:
    sid: int
    opid: str | None
    origin: str
    kind: Kind
    namespace: str | None
    label: str
    pos: int                       # index of the next event in world.events[kind.key]
    last_rv: int                   # rv of the last event put on the wire (or `since`)
    buffer: collections.deque = dataclasses.field(default_factory=collections.deque)
    inject: collections.deque = dataclasses.field(default_factory=collections.deque)
    waiter: Any = None
    eof: bool = False
    error: BaseException | None = None
    open: bool = True
    client_closed: bool = False
    opened_at: float = 0.0
    closed_at: float | None = None
    delivered: list = dataclasses.field(default_factory=list)  # (rv, type, name) put on the wire


@dataclasses.dataclass
class Request:
    rid: int
    opid: str | None
    origin: str
    method: str
    url: str
    path: str
    params: dict[str, str]
    payload: Any
    ctype: str
    label: str
    t_issued: float
    state: str = 'new'             # new -> applied -> done | dropped
    fut: Any = None
    outcome: Any = None            # (status, headers, body) | Stream
    t_applied: float | None = None
    t_responded: float | None = None
    target: tuple | None = None    # (kind.key, ns, name)
    pre: Any = None                # object before
    post: Any = None               # object after
    status: int | None = None
    fault: str | None = None
    session: Any = None

    def brief(self) -> dict[str, Any]:
        return dict(rid=self.rid, op=self.opid, origin=self.origin, method=self.method,
                    path=self.path, ctype=self.ctype, status=self.status, fault=self.fault,
                    t_issued=self.t_issued, t_applied=self.t_applied,
                    t_responded=self.t_responded)


def status_body(code: int, message: str = '', details: dict | None = None) -> dict:
    reasons = {400: 'BadRequest', 401: 'Unauthorized', 403: 'Forbidden', 404: 'NotFound',
               409: 'Conflict', 410: 'Expired', 422: 'Invalid', 429: 'TooManyRequests',
               500: 'InternalError', 503: 'ServiceUnavailable'}
    body = {'kind': 'Status', 'apiVersion': 'v1', 'metadata': {}, 'status': 'Failure',
            'message': message or reasons.get(code, 'Error'), 'reason': reasons.get(code, 'Error'),
            'code': code}
    if details:
        body['details'] = details
    return body


class World:

    SERVER = 'http://fake'

    def __init__(self, clock: Callable[[], float], kinds: list[Kind] | None = None, rv0: int = 100) -> None:
        self.clock = clock
        self.rv = rv0      # resource versions are opaque strings to clients: scenarios may start right below a digit boundary
        self.uid_counter = 0
        self.kinds: dict[tuple[str, str, str], Kind] = {}
        self.objects: dict[tuple[str, str, str], dict[tuple[str | None, str], dict]] = {}
        self.events: dict[tuple[str, str, str], list[tuple[int, str, dict]]] = {}
        self.compacted: dict[tuple[str, str, str], int] = {}
        self.pending: list[Request] = []
        self.requests: list[Request] = []       # all non-auto requests ever issued (the log)
        self.auto_requests = 0
        self.auto_log: list[tuple[float, str, str, str | None]] = []
        self.streams: list[Stream] = []
        self.writes: list[dict] = []            # every mutation of any object, with its actor
        self.frozen = False
        self.auto: Callable[[Request], bool] = default_auto
        self._ordinals: dict[str, int] = collections.defaultdict(int)
        self._rid = 0
        self._sid = 0
        self.dead_ops: set[str] = set()
        self.on_write: Callable[[int, dict], None] | None = None
        for k in (kinds if kinds is not None else [NAMESPACES, EVENTS, CRDS, KEX]):
            self.add_kind(k)

    # ---- kinds / discovery ---------------------------------------------------------------
    def add_kind(self, kind: Kind) -> None:
        self.kinds[kind.key] = kind
        self.objects.setdefault(kind.key, {})
        self.events.setdefault(kind.key, [])
        self.compacted.setdefault(kind.key, 0)

    def remove_kind(self, kind: Kind) -> None:
        self.kinds.pop(kind.key, None)

    def _preferred(self, group: str, versions: set[str]) -> str:
        want = getattr(self, 'preferred', {}).get(group)
        return want if want in versions else sorted(versions)[0]

    def _discovery(self, path: str) -> tuple[int, dict, Any] | None:
        if path == '/version':
            return 200, {}, {'major': '1', 'minor': '30', 'gitVersion': 'v1.30.0-fake'}
        if path == '/api':
            return 200, {}, {'kind': 'APIVersions', 'versions': ['v1']}
        if path == '/apis':
            groups: dict[str, set[str]] = {}
            for k in self.kinds.values():
                if k.group:
                    groups.setdefault(k.group, set()).add(k.version)
            return 200, {}, {'kind': 'APIGroupList', 'groups': [
                {'name': g, 'versions': [{'groupVersion': f'{g}/{v}', 'version': v} for v in sorted(vs)],
                 'preferredVersion': {'groupVersion': f'{g}/{self._preferred(g, vs)}', 'version': self._preferred(g, vs)}}
                for g, vs in sorted(groups.items())]}
        parts = path.strip('/').split('/')
        group_version: tuple[str, str] | None = None
        if len(parts) == 2 and parts[0] == 'api':
            group_version = ('', parts[1])
        elif len(parts) == 3 and parts[0] == 'apis':
            group_version = (parts[1], parts[2])
        if group_version is not None:
            found = [k for k in self.kinds.values() if (k.group, k.version) == group_version]
            if not found:
                return 404, {}, status_body(404)
            resources = []
            for k in sorted(found, key=lambda k: k.plural):
                resources.append({'name': k.plural, 'singularName': k.singular, 'kind': k.kind,
                                  'namespaced': k.namespaced, 'verbs': list(k.verbs),
                                  'shortNames': list(k.short), 'categories': list(k.categories)})
                for sub in sorted(k.subresources):
                    resources.append({'name': f'{k.plural}/{sub}', 'singularName': '', 'kind': k.kind,
                                      'namespaced': k.namespaced, 'verbs': ['get', 'patch', 'update']})
            gv = group_version[1] if not group_version[0] else '/'.join(group_version)
            return 200, {}, {'kind': 'APIResourceList', 'groupVersion': gv, 'resources': resources}
        return None

    # ---- object store --------------------------------------------------------------------------
    def _next_rv(self) -> int:
        self.rv += 1
        return self.rv

    def _emit(self, kind: Kind, etype: str, obj: dict) -> None:
        self.events[kind.key].append((int(obj['metadata']['resourceVersion']), etype, copy.deepcopy(obj)))

    def _record(self, actor: str, kind: Kind, ns: str | None, name: str, verb: str,
                pre: dict | None, post: dict | None, rid: int | None = None) -> None:
        self.writes.append(dict(t=self.clock(), actor=actor, kind=kind.plural, ns=ns, name=name,
                                verb=verb, pre=pre, post=copy.deepcopy(post), rid=rid))
        if self.on_write is not None:
            self.on_write(len(self.writes) - 1, self.writes[-1])

    def get(self, kind: Kind, ns: str | None, name: str) -> dict | None:
        return self.objects[kind.key].get((ns if kind.namespaced else None, name))

    def create(self, kind: Kind, ns: str | None, name: str, body: dict | None = None,
               actor: str = 'user') -> dict:
        ns = ns if kind.namespaced else None
        if (ns, name) in self.objects[kind.key]:
            raise KeyError(f'{name} exists')
        obj = copy.deepcopy(body or {})
        obj.setdefault('apiVersion', kind.api_version)
        obj.setdefault('kind', kind.kind)
        meta = obj.setdefault('metadata', {})
        meta['name'] = name
        if ns is not None:
            meta['namespace'] = ns
        self.uid_counter += 1
        meta['uid'] = f'uid-{self.uid_counter}'
        meta['creationTimestamp'] = iso(self.clock())
        meta['resourceVersion'] = str(self._next_rv())
        obj = normalise(obj)
        self.objects[kind.key][(ns, name)] = obj
        self._emit(kind, 'ADDED', obj)
        self._record(actor, kind, ns, name, 'create', None, obj)
        return obj

    def _store(self, kind: Kind, ns: str | None, name: str, old: dict, new: dict,
               actor: str, verb: str, rid: int | None = None) -> dict:
        """Persist `new` in place of `old` if different; handle finalisation. Returns the result."""
        new = normalise(new)
        # immutable system fields
        for f in ('uid', 'name', 'namespace', 'creationTimestamp', 'resourceVersion', 'deletionTimestamp'):
            if f in old['metadata']:
                new.setdefault('metadata', {})[f] = old['metadata'][f]
            else:
                new.get('metadata', {}).pop(f, None)
        new['apiVersion'] = old['apiVersion']
        new['kind'] = old['kind']
        if json.dumps(new, sort_keys=True) == json.dumps(old, sort_keys=True):   # JSON equality: true is not 1
            return old
        marked = 'deletionTimestamp' in new['metadata']
        if marked and not new['metadata'].get('finalizers'):
            # The removal of the last finalizer of an object marked for deletion: it is gone.
            del self.objects[kind.key][(ns, name)]
            gone = copy.deepcopy(new)
            gone['metadata']['resourceVersion'] = str(self._next_rv())
            self._emit(kind, 'DELETED', gone)
            self._record(actor, kind, ns, name, verb + '+finalised', copy.deepcopy(old), None, rid)
            return new  # the response carries the last known version
        new['metadata']['resourceVersion'] = str(self._next_rv())
        self.objects[kind.key][(ns, name)] = new
        self._emit(kind, 'MODIFIED', new)
        self._record(actor, kind, ns, name, verb, copy.deepcopy(old), new, rid)
        return new

    def edit(self, kind: Kind, ns: str | None, name: str, fn: Callable[[dict], None],
             actor: str = 'user') -> dict | None:
        ns = ns if kind.namespaced else None
        old = self.objects[kind.key].get((ns, name))
        if old is None:
            return None
        new = copy.deepcopy(old)
        fn(new)
        return self._store(kind, ns, name, old, new, actor, 'edit')

    def merge(self, kind: Kind, ns: str | None, name: str, patch: dict, actor: str = 'user') -> dict | None:
        return self.edit(kind, ns, name, lambda o: _merge_into(o, patch), actor=actor)

    def delete(self, kind: Kind, ns: str | None, name: str, actor: str = 'user') -> dict | None:
        ns = ns if kind.namespaced else None
        old = self.objects[kind.key].get((ns, name))
        if old is None:
            return None
        if old['metadata'].get('finalizers'):
            if 'deletionTimestamp' in old['metadata']:
                return old
            new = copy.deepcopy(old)
            new['metadata']['deletionTimestamp'] = iso(self.clock())
            new['metadata']['resourceVersion'] = str(self._next_rv())
            self.objects[kind.key][(ns, name)] = new
            self._emit(kind, 'MODIFIED', new)
            self._record(actor, kind, ns, name, 'mark-deleted', copy.deepcopy(old), new)
            return new
        del self.objects[kind.key][(ns, name)]
        gone = copy.deepcopy(old)
        gone['metadata']['resourceVersion'] = str(self._next_rv())
        self._emit(kind, 'DELETED', gone)
        self._record(actor, kind, ns, name, 'delete', copy.deepcopy(old), None)
        return None

    def compact(self, kind: Kind) -> None:
        """Forget the watch history: watches from older versions now get 410 Gone."""
        self.compacted[kind.key] = self.rv

    # ---- request processing --------------------------------------------------------------------
    def _route(self, path: str) -> tuple[Kind, str | None, str | None, str | None] | None:
        """-> (kind, namespace, name, subresource)"""
        parts = path.strip('/').split('/')
        if parts[0] == 'api' and len(parts) >= 3:
            group, version, rest = '', parts[1], parts[2:]
        elif parts[0] == 'apis' and len(parts) >= 4:
            group, version, rest = parts[1], parts[2], parts[3:]
        else:
            return None
        ns: str | None = None
        if rest[0] == 'namespaces' and len(rest) >= 3 and (group, version, rest[2]) in self.kinds:
            ns, rest = rest[1], rest[2:]
        kind = self.kinds.get((group, version, rest[0]))
        if kind is None:
            return None
        name = rest[1] if len(rest) > 1 else None
        sub = rest[2] if len(rest) > 2 else None
        return kind, ns, name, sub

    def execute(self, req: Request) -> Any:
        """The linearization point of a request. Returns (status, headers, body) or a Stream."""
        disc = self._discovery(req.path) if req.method == 'get' else None
        if disc is not None:
            return disc
        route = self._route(req.path)
        if route is None:
            return 404, {}, status_body(404, f'no route {req.path}')
        kind, ns, name, sub = route
        actor = f'op:{req.opid}:{req.origin}'
        store = self.objects[kind.key]
        if req.method == 'get' and name is None:
            if req.params.get('watch') == 'true':
                return self._open_stream(req, kind, ns)
            items = [copy.deepcopy(o) for (ons, _), o in sorted(store.items(), key=lambda kv: (kv[0][0] or '', kv[0][1]))
                     if ns is None or ons == ns]
            for o in items:  # as real lists do: items carry no kind/apiVersion
                o.pop('kind', None)
                o.pop('apiVersion', None)
            return 200, {}, {'kind': f'{kind.kind}List', 'apiVersion': kind.api_version,
                             'metadata': {'resourceVersion': str(self.rv)}, 'items': items}
        if req.method == 'post' and name is None:
            body = req.payload or {}
            oname = body.get('metadata', {}).get('name') or \
                (body.get('metadata', {}).get('generateName', 'gen-') + f'{self.rv + 1}')
            ons = ns or body.get('metadata', {}).get('namespace')
            if (ons if kind.namespaced else None, oname) in store:
                return 409, {}, status_body(409)
            obj = self.create(kind, ons, oname, body, actor=actor)
            return 201, {}, copy.deepcopy(obj)
        if name is None:
            return 405, {}, status_body(405)
        key = (ns if kind.namespaced else None, name)
        old = store.get(key)
        req.target = (kind.key, key[0], name)
        req.pre = copy.deepcopy(old)
        if old is None:
            return 404, {}, status_body(404, f'{kind.plural} "{name}" not found',
                                        {'name': name, 'kind': kind.plural})
        if req.method == 'get':
            return 200, {}, copy.deepcopy(old)
        if req.method == 'delete':
            res = self.delete(kind, key[0], name, actor=actor)
            req.post = copy.deepcopy(res)
            return 200, {}, copy.deepcopy(res if res is not None else old)
        if req.method == 'patch':
            if sub is not None and sub not in kind.subresources:
                return 404, {}, status_body(404, f'no subresource {sub}')
            try:
                if req.ctype == 'application/merge-patch+json':
                    if not isinstance(req.payload, dict):
                        return 400, {}, status_body(400, 'merge-patch must be an object')
                    candidate = rfc7386.strip_nulls(rfc7386.merge(old, req.payload))
                elif req.ctype == 'application/json-patch+json':
                    candidate = rfc6902.apply(old, req.payload)
                else:
                    return 415, {}, status_body(415, f'unsupported {req.ctype}')
            except rfc6902.PatchError as e:
                return 422, {}, status_body(422, f'the server rejected our request: {e}')
            if 'status' in kind.subresources:
                if sub == 'status':
                    kept = copy.deepcopy(old)
                    if 'status' in candidate:
                        kept['status'] = candidate['status']
                    else:
                        kept.pop('status', None)
                    candidate = kept
                else:
                    if 'status' in old:
                        candidate['status'] = copy.deepcopy(old['status'])
                    else:
                        candidate.pop('status', None)
            if not isinstance(candidate, dict) or not isinstance(candidate.get('metadata'), dict):
                return 422, {}, status_body(422, 'invalid object')
            new = self._store(kind, key[0], name, old, candidate, actor, 'patch', rid=req.rid)
            req.post = copy.deepcopy(new)
            return 200, {}, copy.deepcopy(new)
        return 405, {}, status_body(405)

    def _open_stream(self, req: Request, kind: Kind, ns: str | None) -> Stream:
        log = self.events[kind.key]
        since_s = req.params.get('resourceVersion')
        since = int(since_s) if since_s not in (None, '', '0') else self.rv
        self._sid += 1
        pos = 0
        while pos < len(log) and log[pos][0] <= since:
            pos += 1
        s = Stream(sid=self._sid, opid=req.opid, origin=req.origin, kind=kind, namespace=ns,
                   label=req.label, pos=pos, last_rv=since, opened_at=self.clock())
        s.clock = self.clock  # type: ignore[attr-defined]
        if since < self.compacted[kind.key]:
            s.inject.append({'type': 'ERROR', 'object': status_body(410, f'too old resource version: {since}')})
            s.inject.append(EOF)
        self.streams.append(s)
        return s

    # ---- the client side -----------------------------------------------------------------------
    def new_request(self, session: Any, method: str, url: str, payload: Any, headers: dict | None) -> Request:
        parsed = urllib.parse.urlsplit(url)
        params = dict(urllib.parse.parse_qsl(parsed.query))
        task = asyncio.current_task()
        origin = task.get_name() if task is not None else '?'
        opid = OPID.get()
        method = method.lower()
        kindflag = 'watch' if params.get('watch') == 'true' else ''
        ctype = (headers or {}).get('Content-Type', '')
        short = {'application/merge-patch+json': 'merge', 'application/json-patch+json': 'json'}.get(ctype, '')
        key = f'{opid}|{origin}|{method}{kindflag}{short}|{parsed.path}'
        self._ordinals[key] += 1
        self._rid += 1
        return Request(rid=self._rid, opid=opid, origin=origin, method=method, url=url, path=parsed.path,
                       params=params, payload=copy.deepcopy(payload), ctype=ctype,
                       label=f'{key}#{self._ordinals[key]}', t_issued=self.clock(), session=session)

    def apply(self, req: Request) -> None:
        assert req.state == 'new'
        req.outcome = self.execute(req) if not self.frozen else (503, {}, status_body(503))
        req.state = 'applied'
        req.t_applied = self.clock()
        if not isinstance(req.outcome, Stream):
            req.status = req.outcome[0]
        else:
            req.status = 200

    def make_response(self, req: Request) -> FakeResponse:
        if isinstance(req.outcome, Stream):
            return FakeResponse(status=200, headers={}, body=None, url=req.url, method=req.method,
                                stream=req.outcome)
        status, headers, body = req.outcome
        return FakeResponse(status=status, headers=headers, body=body, url=req.url, method=req.method)

    def respond(self, req: Request) -> None:
        assert req.state == 'applied'
        req.state = 'done'
        req.t_responded = self.clock()
        if req in self.pending:
            self.pending.remove(req)
        if req.fut is not None and not req.fut.done():
            req.fut.set_result(self.make_response(req))

    def fail(self, req: Request, kind: str) -> None:
        """Answer with a scripted fault. Unapplied requests stay unapplied (rejected up front);
        for 'lost' the request is applied first and then its response is lost."""
        if kind == 'lost':
            if req.state == 'new':
                self.apply(req)
                if isinstance(req.outcome, Stream):
                    req.outcome.open = False
            exc: BaseException | None = aiohttp.ClientConnectionError('connection reset (response lost)')
        elif kind == 'conn':
            exc = aiohttp.ClientConnectionError('connection refused')
        elif kind == 'timeout':
            exc = asyncio.TimeoutError()
        else:
            exc = None
        req.fault = kind
        req.state = 'done'
        req.t_responded = self.clock()
        if req in self.pending:
            self.pending.remove(req)
        if req.fut is None or req.fut.done():
            return
        if exc is not None:
            req.fut.set_exception(exc)
            return
        code, _, extra = kind.partition(':')
        status = int(code)
        headers: dict[str, str] = {}
        details = None
        if extra.startswith('ra'):
            headers['Retry-After'] = extra[2:]
        elif extra.startswith('rs'):
            details = {'retryAfterSeconds': int(extra[2:])}
        req.status = status
        req.fut.set_result(FakeResponse(status=status, headers=headers, body=status_body(status, details=details),
                                        url=req.url, method=req.method))

    def drop_operator(self, opid: str) -> None:
        """The process died: its sockets are gone."""
        self.dead_ops.add(opid)
        for req in list(self.pending):
            if req.opid == opid:
                req.state = 'dropped' if req.state == 'new' else 'done'
                self.pending.remove(req)
        for s in self.streams:
            if s.opid == opid:
                s.open = False
                if s.closed_at is None:
                    s.closed_at = self.clock()

    # ---- streams -------------------------------------------------------------------------------
    def stream_next(self, s: Stream) -> Any:
        """Peek at what would be delivered next on this stream (None if nothing)."""
        if not s.open or s.eof or s.error is not None or s.client_closed:
            return None
        if s.inject:
            return s.inject[0]
        log = self.events[s.kind.key]
        while s.pos < len(log):
            rv, etype, obj = log[s.pos]
            if s.namespace is not None and obj['metadata'].get('namespace') != s.namespace:
                s.pos += 1
                continue
            return {'type': etype, 'object': obj}
        return None

    def deliver(self, s: Stream) -> Any:
        item = self.stream_next(s)
        assert item is not None
        if s.inject:
            s.inject.popleft()
        else:
            s.pos += 1
        if item is EOF:
            s.eof = True
        else:
            if item['type'] in ('ADDED', 'MODIFIED', 'DELETED'):
                s.last_rv = int(item['object']['metadata']['resourceVersion'])
                s.delivered.append((s.last_rv, item['type'], item['object']['metadata'].get('name')))
            line = json.dumps(item).encode('utf-8') + b'\n'
            # how the bytes of a watch event reach the client is the network's business (TCP segments, TLS records, HTTP chunks,
            # re-chunking proxies): a line can come whole, in pieces, or with its newline in a read of its own
            framing = getattr(self, 'framing', 'line')
            if framing == 'newline-alone':
                s.buffer.extend([line[:-1], b'\n'])
            elif framing == 'split-mid':
                s.buffer.extend([line[:len(line) // 2], line[len(line) // 2:]])
            elif framing == 'newline-leads':      # the newline travels with the first bytes of what follows; a blank keep-alive line ends the read
                s.buffer.extend([line[:-1], b'\n\n'])
            elif framing == 'bytes3':
                s.buffer.extend([line[i:i + 3] for i in range(0, len(line), 3)])
            else:
                s.buffer.append(line)
        self._wake(s)
        return item

    def _wake(self, s: Stream) -> None:
        if s.waiter is not None and not s.waiter.done():
            s.waiter.set_result(None)

    def stream_eof(self, s: Stream) -> None:
        s.eof = True
        self._wake(s)

    def stream_error(self, s: Stream, exc: BaseException) -> None:
        s.error = exc
        self._wake(s)

    def stream_inject(self, s: Stream, item: Any) -> None:
        s.inject.append(item)

    def bookmark(self, s: Stream) -> None:
        rv = self.rv if self._nothing_undelivered(s) else s.last_rv
        s.inject.append({'type': 'BOOKMARK', 'object': {'kind': s.kind.kind, 'apiVersion': s.kind.api_version,
                                                          'metadata': {'resourceVersion': str(rv)}}})

    def _nothing_undelivered(self, s: Stream) -> bool:
        log = self.events[s.kind.key]
        for rv, _, obj in log[s.pos:]:
            if s.namespace is None or obj['metadata'].get('namespace') == s.namespace:
                return False
        return True

    def open_streams(self) -> list[Stream]:
        return [s for s in self.streams if s.open and not s.eof and s.error is None and not s.client_closed
                and s.opid not in self.dead_ops]


class _EOF:
    def __repr__(self) -> str:
        return 'EOF'


EOF = _EOF()


def default_auto(req: Request) -> bool:
    """Requests answered inline (not under the explorer's control): API discovery."""
    if req.method != 'get':
        return False
    p = req.path.strip('/').split('/')
    return req.path in ('/version', '/api', '/apis') or (p[0] == 'api' and len(p) == 2) or \
        (p[0] == 'apis' and len(p) == 3)


def _merge_into(obj: dict, patch: dict) -> None:
    merged = rfc7386.strip_nulls(rfc7386.merge(obj, patch))
    obj.clear()
    obj.update(merged)


def normalise(obj: dict) -> dict:
    """Server-side normalisation: no nulls; empty annotations/labels/finalizers are dropped."""
    obj = rfc7386.strip_nulls(obj)
    meta = obj.get('metadata')
    if isinstance(meta, dict):
        for f in ('annotations', 'labels', 'finalizers'):
            if f in meta and not meta[f]:
                del meta[f]
    return obj


class FakeSession:
    """Duck-types the part of aiohttp.ClientSession that kopf uses."""

    def __init__(self, world: World, name: str = 'session') -> None:
        self.world = world
        self.name = name
        self.headers: dict[str, str] = {}
        self._closed = False
        self.valid = True           # flips to False to simulate expired credentials (=> 401)
        self.requests = 0

    @property
    def closed(self) -> bool:
        return self._closed

    async def close(self) -> None:
        self._closed = True

    async def request(self, method: str, url: str, *, json: Any = None, headers: dict | None = None,
                      timeout: Any = None, **_: Any) -> FakeResponse:
        if self._closed:
            raise RuntimeError("Session is closed")
        self.requests += 1
        w = self.world
        req = w.new_request(self, method, url, json, headers)
        if not self.valid:
            req.state = 'done'
            req.status = 401
            req.fault = '401'
            w.requests.append(req)
            return FakeResponse(status=401, headers={}, body=status_body(401), url=url, method=method)
        if w.auto(req):
            w.auto_requests += 1
            w.auto_log.append((w.clock(), req.origin, req.path, req.opid))
            w.apply(req)
            req.state = 'done'
            req.t_responded = w.clock()
            return w.make_response(req)
        w.requests.append(req)
        req.fut = asyncio.get_running_loop().create_future()
        w.pending.append(req)
        try:
            return await req.fut
        except asyncio.CancelledError:
            if req.state == 'new':
                req.state = 'dropped'
                if req in w.pending:
                    w.pending.remove(req)
            elif req.state == 'applied':
                req.state = 'done'
                if req in w.pending:
                    w.pending.remove(req)
                if isinstance(req.outcome, Stream):
                    req.outcome.open = False
            elif isinstance(req.outcome, Stream):
                # answered in the very step in which the client was cancelled: the response never reached it, its connection is gone
                req.outcome.open = False
            raise


def selftest() -> None:
    t = [0.0]
    w = World(lambda: t[0], kinds=[NAMESPACES, EVENTS, CRDS, KEX_SUB])
    o = w.create(KEX_SUB, 'ns', 'a', {'spec': {'x': 1}, 'metadata': {'labels': {}}})
    assert 'labels' not in o['metadata'] and o['metadata']['uid'] == 'uid-1'
    rv0 = int(o['metadata']['resourceVersion'])
    # unchanged patch: no version bump, no event
    n = len(w.events[KEX_SUB.key])
    w.merge(KEX_SUB, 'ns', 'a', {'spec': {'x': 1}})
    assert len(w.events[KEX_SUB.key]) == n and int(w.get(KEX_SUB, 'ns', 'a')['metadata']['resourceVersion']) == rv0
    # status subresource isolation
    req = Request(1, 'o', 't', 'patch', '', '/apis/kopf.dev/v1/namespaces/ns/kopfexamples/a', {}, {'status': {'s': 1}, 'spec': {'x': 2}},
                  'application/merge-patch+json', 'l', 0.0)
    st, _, body = w.execute(req)
    assert st == 200 and 'status' not in body and body['spec']['x'] == 2
    req = Request(2, 'o', 't', 'patch', '', '/apis/kopf.dev/v1/namespaces/ns/kopfexamples/a/status', {}, {'status': {'s': 1}, 'spec': {'x': 3}},
                  'application/merge-patch+json', 'l', 0.0)
    st, _, body = w.execute(req)
    assert st == 200 and body['status'] == {'s': 1} and body['spec']['x'] == 2
    # json-patch with a version test
    cur = w.get(KEX_SUB, 'ns', 'a')
    ops = [{'op': 'test', 'path': '/metadata/resourceVersion', 'value': cur['metadata']['resourceVersion']},
           {'op': 'add', 'path': '/metadata/finalizers', 'value': ['f']}]
    req = Request(3, 'o', 't', 'patch', '', '/apis/kopf.dev/v1/namespaces/ns/kopfexamples/a', {}, ops, 'application/json-patch+json', 'l', 0.0)
    st, _, body = w.execute(req)
    assert st == 200 and body['metadata']['finalizers'] == ['f']
    st, _, body = w.execute(req)
    assert st == 422
    # deletion with a finalizer marks; removing the finalizer finalises
    w.delete(KEX_SUB, 'ns', 'a')
    assert 'deletionTimestamp' in w.get(KEX_SUB, 'ns', 'a')['metadata']
    w.merge(KEX_SUB, 'ns', 'a', {'metadata': {'finalizers': None}})
    assert w.get(KEX_SUB, 'ns', 'a') is None and w.events[KEX_SUB.key][-1][1] == 'DELETED'
    # name reuse => new uid; missing => 404
    assert w.create(KEX_SUB, 'ns', 'a')['metadata']['uid'] == 'uid-2'
    req = Request(4, 'o', 't', 'patch', '', '/apis/kopf.dev/v1/namespaces/ns/kopfexamples/zz', {}, {}, 'application/merge-patch+json', 'l', 0.0)
    assert w.execute(req)[0] == 404
    # discovery
    assert w._discovery('/apis/kopf.dev/v1')[2]['resources'][1]['name'] == 'kopfexamples/status'
    # watch replay + 410
    req = Request(5, 'o', 't', 'get', '', '/apis/kopf.dev/v1/kopfexamples', {'watch': 'true', 'resourceVersion': str(rv0)}, None, '', 'l', 0.0)
    s = w.execute(req)
    assert isinstance(s, Stream) and w.stream_next(s)['type'] == 'MODIFIED'
    w.compact(KEX_SUB)
    s2 = w.execute(req)
    assert w.stream_next(s2)['type'] == 'ERROR'
