"""
The explorer: one controlled execution (`Env`), and the deviation-bounded depth-first search
over environment choices (`explore`). See DESIGN.md §2.3, §3, §4.
"""
from __future__ import annotations

import contextvars
import dataclasses
import gc
import hashlib
import json
import time as _walltime
from typing import Any, Callable, Iterable

from kv import shims
from kv.vloop import OPID, HarnessError, Stall, VLoop, Watchdog, collect_garbage
from kv.world import EOF, Kind, Request, Stream, World


@dataclasses.dataclass
class Violation:
    prop: str
    kind: str
    message: str
    signature: dict[str, Any]
    scenario: str = ''
    params: dict[str, Any] = dataclasses.field(default_factory=dict)
    labels: list[str] = dataclasses.field(default_factory=list)
    deviations: list[str] = dataclasses.field(default_factory=list)
    trace: list[Any] = dataclasses.field(default_factory=list)

    def key(self) -> str:
        return json.dumps([self.prop, self.signature], sort_keys=True, default=str)


@dataclasses.dataclass
class UserAction:
    at: float
    name: str
    fn: Callable[["Env"], None]


class Scenario:
    """Base class: a closed system = registry + world + user script + oracle."""
    name = 'scenario'
    prop = 'C00'
    horizon = 60.0
    grid: float | None = None        # extra no-op instants where `time` stops
    coincide = False                 # allow env actions right after `time` while handles are ready
    dev_when_ready = False           # allow env actions at every step boundary (S1 harnesses)
    max_steps = 20_000
    instant_budget = 20_000
    kinds: list[Kind] | None = None

    def __init__(self, **params: Any) -> None:
        self.params = params

    # --- to be provided by subclasses ---
    def setup(self, env: "Env") -> None:
        raise NotImplementedError

    def script(self, env: "Env") -> list[UserAction]:
        return []

    def check(self, env: "Env") -> list[Violation]:
        return []

    def done(self, env: "Env") -> bool:
        return False

    # --- optional hooks: what else the environment may do ---
    def faults(self, env: "Env", req: Request) -> Iterable[str]:
        return ()

    def delays(self, env: "Env", req: Request) -> bool:
        return True

    def stream_faults(self, env: "Env", s: Stream) -> Iterable[str]:
        return ()

    def extra(self, env: "Env") -> Iterable[tuple[str, Callable[[], None]]]:
        return ()

    def allow_early_user(self, env: "Env", action: UserAction) -> bool:
        return True

    def user_ready(self, env: "Env", action: UserAction) -> bool:
        return True

    def deliverable(self, env: "Env", s: Stream, item: Any) -> bool:
        """Network latency as a scenario parameter: may this item reach the client now?"""
        return True

    def serve_fault(self, env: "Env", req: Request) -> str | None:
        """Scripted (parameter-driven, not deviation-driven) answers: a fault kind instead of serving."""
        return None

    def instants(self, env: "Env") -> Iterable[float]:
        """Extra instants at which `time` must stop (e.g. the end of a network hold)."""
        return ()

    def allow_time_deviation(self, env: "Env") -> bool:
        return True

    def describe(self) -> dict[str, Any]:
        return {'scenario': self.name, 'params': self.params}

    def viol(self, env: "Env", kind: str, message: str, **signature: Any) -> Violation:
        return Violation(prop=self.prop, kind=kind, message=message,
                         signature=dict(kind=kind, **signature), scenario=self.name,
                         params=dict(self.params))


class Env:
    """One execution: a fresh loop, a fresh world, the scenario's actors."""

    def __init__(self, scenario: Scenario, prefix: list[str] | None = None) -> None:
        self.scenario = scenario
        self.prefix = list(prefix or [])
        self.loop = VLoop()
        self.world = World(self.loop.time, kinds=scenario.kinds, rv0=int(scenario.params.get('rv0', 100)))
        self.world.framing = str(scenario.params.get('framing', 'line'))     # type: ignore[attr-defined]   # how watch lines are cut into network reads
        self.world.on_write = lambda idx, rec: self.log('write', idx=idx, actor=rec['actor'], name=rec['name'],
                                                        verb=rec['verb'], objkind=rec['kind'])
        self.obs: list[tuple[float, str, dict[str, Any]]] = []
        self.labels: list[str] = []                       # the choice taken at every choice point
        self.points: list[tuple[str, tuple[str, ...]]] = []  # (choice, enabled)
        self.deviations: list[tuple[int, str]] = []
        self.fps: list[int] = []
        self.user: list[UserAction] = []
        self.user_idx = 0
        self.parked: set[int] = set()
        self.tasks: dict[str, Any] = {}
        self.counters: dict[str, int] = {}
        self.closed = False
        self.error: str | None = None
        self.end_reason = ''
        self.time_while_ready = 0       # number of `time` actions taken while handles were ready
        self.time_while_pending = 0
        self._after_time = False
        self._extra: dict[str, Callable[[], None]] = {}
        self.memo: dict[str, Any] = {}   # free space for scenarios

    # ---- helpers for scenarios -----------------------------------------------------------------
    @property
    def now(self) -> float:
        return self.loop.time()

    def log(self, kind: str, /, **payload: Any) -> None:
        if not self.closed:
            self.obs.append((self.loop.time(), kind, payload))

    def spawn(self, opid: str, coro: Any, name: str) -> Any:
        ctx = contextvars.copy_context()
        ctx.run(OPID.set, opid)
        task = self.loop.create_task(coro, name=name, context=ctx)
        self.tasks[name] = task
        return task

    def kill(self, opid: str) -> None:
        self.loop.kill_operator(opid)
        self.world.drop_operator(opid)
        self.log('kill', op=opid)

    def count(self, key: str) -> int:
        self.counters[key] = self.counters.get(key, 0) + 1
        return self.counters[key]

    def owes(self) -> bool:
        """Does the environment still owe the system something (an answer, an event) at the end?
        Liveness ('eventually') clauses are only judged on executions where it does not."""
        if any(r.state in ('new', 'applied') for r in self.world.pending):
            return True
        if self.user_idx < len(self.user):
            return True   # the scripted user has not even finished acting
        return any(self.world.stream_next(s) is not None for s in self.world.open_streams())

    def events_of(self, kind: str) -> list[tuple[float, dict[str, Any]]]:
        return [(t, p) for t, k, p in self.obs if k == kind]

    # ---- enabled actions -----------------------------------------------------------------------
    def _env_actions(self) -> list[str]:
        """All environment actions enabled now, default-policy order first."""
        w, sc = self.world, self.scenario
        fresh = [r for r in w.pending if r.rid not in self.parked]
        parked = [r for r in w.pending if r.rid in self.parked]
        acts: list[str] = []
        # 1. requests, oldest first
        for r in fresh:
            acts.append(('srv:serve:' if r.state == 'new' else 'srv:respond:') + r.label)
        # 2. watch deliveries, oldest event first
        deliverable = []
        for s in w.open_streams():
            nxt = w.stream_next(s)
            if nxt is not None and sc.deliverable(self, s, nxt):
                rvs = None if nxt is EOF else (nxt.get('object', {}).get('metadata') or {}).get('resourceVersion')
                order = (0, 0) if nxt is EOF or nxt['type'] in ('ERROR', 'BOOKMARK') or rvs is None else (1, int(rvs))
                deliverable.append((order, s.sid, s))
        deliverable.sort(key=lambda x: (x[0], x[1]))
        for _, _, s in deliverable:
            acts.append('watch:deliver:' + s.label)
        # 3. the user, when the nominal time has come
        ua = self.user[self.user_idx] if self.user_idx < len(self.user) else None
        if ua is not None and not sc.user_ready(self, ua):
            ua = None
        if ua is not None and ua.at <= self.now:
            acts.append(f'user:{self.user_idx}:{ua.name}')
        # 4. parked (deliberately slow) responses go last before the clock moves
        for r in parked:
            acts.append('srv:respond:' + r.label)
        # 5. time
        if self._next_instant() is not None:
            acts.append('time')
        # --- non-default-only alternatives ---
        if ua is not None and ua.at > self.now and sc.allow_early_user(self, ua):
            acts.append(f'user:{self.user_idx}:{ua.name}')
        for r in fresh:
            if r.state == 'new' and sc.delays(self, r):
                acts.append('srv:delay:' + r.label)
            for f in sc.faults(self, r):
                acts.append(f'srv:fault:{f}:' + r.label)
        for s in w.open_streams():
            for f in sc.stream_faults(self, s):
                acts.append(f'watch:{f}:' + s.label)
        self._extra = {}
        for label, fn in sc.extra(self):
            self._extra[label] = fn
            acts.append(label)
        return acts

    def _next_instant(self) -> float | None:
        cands = []
        d = self.loop.next_deadline()
        if d is not None:
            cands.append(d)
        if self.user_idx < len(self.user) and self.user[self.user_idx].at > self.now:
            cands.append(self.user[self.user_idx].at)
        for t in self.scenario.instants(self):
            if t > self.now:
                cands.append(t)
        g = self.scenario.grid
        if g:
            nxt = (int(self.now / g + 1e-9) + 1) * g
            cands.append(nxt)
        if not cands:
            return None
        t = min(cands)
        return t if t <= self.scenario.horizon else (self.scenario.horizon if self.now < self.scenario.horizon else None)

    def enabled(self) -> list[str]:
        ready = self.loop.has_ready()
        sc = self.scenario
        if ready:
            if sc.dev_when_ready or (sc.coincide and self._after_time):
                acts = ['run'] + [a for a in self._env_actions() if a != 'time' or sc.dev_when_ready]
                if not sc.allow_time_deviation(self):
                    acts = [a for a in acts if a != 'time']
                return acts
            return ['run']
        acts = self._env_actions()
        if not sc.allow_time_deviation(self) and acts and acts[0] != 'time':
            acts = [a for a in acts if a != 'time']
        return acts

    # ---- performing actions --------------------------------------------------------------------
    def perform(self, label: str) -> None:
        w = self.world
        if label == 'run':
            self._after_time = False   # the coincidence window ends when the loop runs
            self.loop.step()
            return
        if label == 'time':
            t = self._next_instant()
            if t is None:
                raise HarnessError("time is not enabled")
            if self.loop.has_ready():
                self.time_while_ready += 1
            if self.world.pending:
                self.time_while_pending += 1   # the clock moved while a request was in flight: API latency
            self.loop.jump_to(t)
            self._after_time = True
            return
        kind, _, rest = label.partition(':')
        if kind == 'srv':
            verb, _, rest = rest.partition(':')
            fault = None
            if verb == 'fault':
                # the fault kind may itself contain ':' (e.g. 429:ra2); labels start with the opid
                for r in w.pending:
                    if rest.endswith(':' + r.label):
                        fault = rest[:-len(r.label) - 1]
                        rest = r.label
                        break
            req = next((r for r in w.pending if r.label == rest), None)
            if req is None:
                raise HarnessError(f"no pending request {rest!r}")
            if verb == 'serve':
                scripted_fault = self.scenario.serve_fault(self, req)
                if scripted_fault is not None:
                    w.fail(req, scripted_fault)
                else:
                    w.apply(req)
                    w.respond(req)
            elif verb == 'delay':
                w.apply(req)
                self.parked.add(req.rid)
            elif verb == 'respond':
                self.parked.discard(req.rid)
                w.respond(req)
            elif verb == 'fault':
                assert fault is not None
                self.parked.discard(req.rid)
                w.fail(req, fault)
            else:
                raise HarnessError(f"bad label {label!r}")
            self.log('srv', verb=verb, **req.brief())
            return
        if kind == 'watch':
            verb, _, rest = rest.partition(':')
            s = next((s for s in w.streams if s.label == rest and s.open), None)
            if s is None:
                raise HarnessError(f"no open stream {rest!r}")
            if verb == 'deliver':
                item = w.deliver(s)
                brief = 'EOF' if item is EOF else \
                    (item['type'], item['object'].get('metadata', {}).get('name'),
                     item['object'].get('metadata', {}).get('resourceVersion'))
                self.log('deliver', stream=s.label, item=brief)
            else:
                self.stream_fault(s, verb)
                self.log('streamfault', stream=s.label, fault=verb)
            return
        if kind == 'user':
            idx = int(rest.split(':', 1)[0])
            if idx != self.user_idx:
                raise HarnessError(f"user action out of order: {label!r}")
            ua = self.user[idx]
            self.user_idx += 1
            self.log('user', name=ua.name, idx=idx)
            ua.fn(self)
            return
        if label in self._extra:
            self._extra[label]()
            self.log('extra', label=label)
            return
        raise HarnessError(f"unknown action {label!r}")

    def stream_fault(self, s: Stream, verb: str) -> None:
        import aiohttp
        import asyncio
        w = self.world
        if verb == 'eof':
            w.stream_eof(s)
        elif verb == 'reset':
            w.stream_error(s, aiohttp.ClientConnectionError('connection reset by peer'))
        elif verb == 'payload':
            w.stream_error(s, aiohttp.ClientPayloadError('payload is not complete'))
        elif verb == 'ctimeout':
            w.stream_error(s, asyncio.TimeoutError())
        elif verb == 'gone410':
            from kv.world import status_body
            w.stream_inject(s, {'type': 'ERROR', 'object': status_body(410, 'too old resource version')})
            w.stream_inject(s, EOF)
        elif verb == 'err500':
            from kv.world import status_body
            w.stream_inject(s, {'type': 'ERROR', 'object': status_body(500, 'etcd exploded')})
        elif verb == 'bookmark':
            w.bookmark(s)
        elif verb == 'unknown':
            w.stream_inject(s, {'type': 'WEIRD', 'object': {'metadata': {}}})
        else:
            raise HarnessError(f"unknown stream fault {verb!r}")

    # ---- the execution -------------------------------------------------------------------------
    def run(self) -> None:
        sc = self.scenario
        loop = self.loop
        shims.install()
        shims.set_clock(loop.time)
        gc_was = gc.isenabled()
        gc.disable()
        loop.install()
        try:
            with Watchdog(loop, VLoop.STALL_SECONDS) as dog:
                try:
                    sc.setup(self)
                    self.user = sc.script(self)
                    self._drive(dog)
                except Stall:
                    self.end_reason = 'stall'
                if loop.stall is not None:
                    self.end_reason = 'stall'
                self.closed = True
                self.world.frozen = True
            self.violations = sc.check(self) if self.error is None else []
        finally:
            self.closed = True
            self.world.frozen = True
            try:
                with Watchdog(loop, 10.0):
                    try:
                        loop.teardown()
                    except Stall:
                        pass
            finally:
                loop.uninstall()
                if gc_was:
                    gc.enable()
                collect_garbage()

    def _drive(self, dog: Watchdog) -> None:
        sc, loop = self.scenario, self.loop
        prefix = self.prefix
        i = 0
        steps = 0
        while True:
            if loop.stall is not None:
                self.end_reason = 'stall'
                return
            if sc.done(self):
                self.end_reason = 'done'
                return
            if loop.steps_this_instant > sc.instant_budget:
                self.end_reason = 'livelock'
                return
            if steps > sc.max_steps:
                self.end_reason = 'step-budget'
                return
            if steps % 64 == 0:
                dog.rearm()   # the watchdog bounds a single step (a spin), not the whole execution
            acts = self.enabled()
            if not acts:
                self.end_reason = 'quiescent' if not self.world.pending else 'deadlock'
                return
            if len(acts) == 1:
                choice = acts[0]
            else:
                if i < len(prefix):
                    choice = prefix[i]
                    if choice not in acts:
                        raise HarnessError(
                            f"replay divergence at choice point {i}: {choice!r} not enabled; "
                            f"enabled: {acts!r}")
                else:
                    choice = acts[0]
                if choice != acts[0]:
                    self.deviations.append((i, choice))
                self.labels.append(choice)
                self.points.append((choice, tuple(acts)))
                self.fps.append(self.fingerprint())
                i += 1
            if choice == 'time' and self.now >= sc.horizon:
                self.end_reason = 'horizon'
                return
            self.perform(choice)
            steps += 1
            if choice == 'time' and self.now >= sc.horizon and not loop.has_ready():
                self.end_reason = 'horizon'
                return
        # not reached

    # ---- fingerprints & signatures --------------------------------------------------------------
    def fingerprint(self) -> int:
        w = self.world
        wkey = (len(w.writes), w.rv)
        cached = self.memo.get('_wfp')
        if cached is None or cached[0] != wkey:
            parts = []
            for kk, objs in w.objects.items():
                for (ns, name), o in objs.items():
                    m = o.get('metadata', {})
                    parts.append((kk[2], ns, name, tuple(sorted((m.get('annotations') or {}).keys())),
                                  tuple(m.get('finalizers') or ()), 'deletionTimestamp' in m,
                                  json.dumps(o.get('spec'), sort_keys=True), json.dumps(m.get('labels'), sort_keys=True)))
            cached = (wkey, hash(tuple(sorted(parts, key=repr))))
            self.memo['_wfp'] = cached
        pend = tuple(sorted((r.label.rsplit('#', 1)[0], r.state) for r in w.pending))
        strm = tuple(sorted((s.label.rsplit('#', 1)[0], len(w.events[s.kind.key]) - s.pos, len(s.inject))
                            for s in w.open_streams()))
        tasks = []
        for t in self.loop.kept:
            if not t.done():
                coro = t.get_coro()
                fr = getattr(coro, 'cr_frame', None)
                tasks.append((t.get_name(), fr.f_lasti if fr is not None else -1))
        tasks.sort()
        now = self.now
        timers = tuple(sorted(round(h._when - now, 6) for h in self.loop._scheduled if not h._cancelled))
        return hash((cached[1], pend, strm, tuple(tasks), timers, self.user_idx, len(self.obs)))

    def trace_digest(self) -> str:
        h = hashlib.sha256()
        h.update(repr(self.obs).encode())
        h.update(repr([(x['t'], x['actor'], x['verb'], x['name']) for x in self.world.writes]).encode())
        h.update(repr([r.brief() for r in self.world.requests]).encode())
        h.update(repr(self.points).encode())
        h.update(self.end_reason.encode())
        return h.hexdigest()

    def outcome_digest(self) -> str:
        """What an observer sees, regardless of the labels chosen (for counting distinct outcomes)."""
        h = hashlib.sha256()
        h.update(repr([(round(t, 6), k, _stable(p)) for t, k, p in self.obs if k not in ('srv', 'deliver', 'user', 'extra')]).encode())
        h.update(repr([(x['actor'], x['verb'], x['name'], _stable(x['post'])) for x in self.world.writes]).encode())
        h.update(self.end_reason.encode())
        return h.hexdigest()


def _stable(x: Any) -> str:
    try:
        return json.dumps(x, sort_keys=True, default=repr)
    except Exception:
        return repr(x)


@dataclasses.dataclass
class Stats:
    executions: int = 0
    points: int = 0
    states: set = dataclasses.field(default_factory=set)
    transitions: set = dataclasses.field(default_factory=set)
    outcomes: set = dataclasses.field(default_factory=set)
    nontrivial: set = dataclasses.field(default_factory=set)
    by_devs: dict = dataclasses.field(default_factory=dict)
    capped: bool = False
    bound_completed: int = -1
    end_reasons: dict = dataclasses.field(default_factory=dict)
    samples: list = dataclasses.field(default_factory=list)
    wall: float = 0.0

    def merge(self, other: "Stats") -> None:
        self.executions += other.executions
        self.points += other.points
        self.states |= other.states
        self.transitions |= other.transitions
        self.outcomes |= other.outcomes
        self.nontrivial |= other.nontrivial
        for k, v in other.by_devs.items():
            self.by_devs[k] = self.by_devs.get(k, 0) + v
        for k, v in other.end_reasons.items():
            self.end_reasons[k] = self.end_reasons.get(k, 0) + v
        self.capped = self.capped or other.capped
        for s in other.samples:
            if len(self.samples) < 6:
                self.samples.append(s)


def execute(scenario: Scenario, prefix: list[str] | None = None) -> Env:
    env = Env(scenario, prefix)
    env.violations = []  # type: ignore[attr-defined]
    env.run()
    return env


def _account(stats: Stats, env: Env, devs: int, default_outcome: str | None) -> None:
    stats.executions += 1
    stats.points += len(env.points)
    stats.by_devs[devs] = stats.by_devs.get(devs, 0) + 1
    stats.end_reasons[env.end_reason] = stats.end_reasons.get(env.end_reason, 0) + 1
    prev = None
    for fp, (choice, _) in zip(env.fps, env.points):
        stats.states.add(fp)
        if prev is not None:
            stats.transitions.add(hash((prev[0], prev[1], fp)))
        prev = (fp, choice.split(':', 2)[0:2].__repr__())
    od = env.outcome_digest()
    stats.outcomes.add(od)
    if default_outcome is not None and od != default_outcome:
        stats.nontrivial.add(od)
    if len(stats.samples) < 3 or (devs > 0 and len(stats.samples) < 6 and env.deviations):
        stats.samples.append({'scenario': env.scenario.name, 'params': _jsonable(env.scenario.params),
                              'deviations': [d for _, d in env.deviations],
                              'choice_points': len(env.points), 'end': env.end_reason,
                              'labels_head': env.labels[:12]})


def _jsonable(x: Any) -> Any:
    try:
        json.dumps(x)
        return x
    except Exception:
        return json.loads(json.dumps(x, default=repr))


def explore(scenario: Scenario, bound: int, *, prefix: list[str] | None = None, devs0: int = 0,
            deadline: float | None = None, max_execs: int | None = None,
            rotate: int = 0, stop_on_violation: bool = False,
            default_outcome: str | None = None) -> tuple[Stats, list[Violation]]:
    """Deviation-bounded DFS from `prefix` (which already contains `devs0` deviations)."""
    stats = Stats()
    violations: dict[str, Violation] = {}
    stack: list[tuple[list[str], int, int]] = [(list(prefix or []), devs0, len(prefix or []))]
    t0 = _walltime.monotonic()
    while stack:
        if deadline is not None and _walltime.monotonic() > deadline:
            stats.capped = True
            break
        if max_execs is not None and stats.executions >= max_execs:
            stats.capped = True
            break
        pfx, devs, start = stack.pop()
        env = execute(scenario, pfx)
        if env.error:
            raise HarnessError(env.error)
        if default_outcome is None and not pfx:
            default_outcome = env.outcome_digest()
        _account(stats, env, devs, default_outcome)
        for v in getattr(env, 'violations', []):
            v.labels = list(env.labels)
            v.deviations = [d for _, d in env.deviations]
            if v.key() not in violations:
                v.trace = [(round(t, 6), k, _jsonable(p)) for t, k, p in env.obs][-80:]
                violations[v.key()] = v
        if stop_on_violation and violations:
            break
        if devs < bound:
            children = []
            for i in range(start, len(env.points)):
                choice, acts = env.points[i]
                for alt in acts:
                    if alt != choice:
                        children.append((env.labels[:i] + [alt], devs + 1, i + 1))
            if rotate and children:
                r = rotate % len(children)
                children = children[r:] + children[:r]
            stack.extend(reversed(children))
    stats.wall = _walltime.monotonic() - t0
    return stats, list(violations.values())
