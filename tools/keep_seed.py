#!/venv/bin/python
"""Store a validated seeded change under /verif/seeded/<name>/ (patch.diff, demo, notes, meta.json)."""
import json, os, shutil, sys
pid, name = sys.argv[1], sys.argv[2]
src = os.environ.get('SEEDROOT', '/tmp/seeds') + f'/{sys.argv[3] if len(sys.argv) > 3 else pid}'
dst = f'/verif/seeded/{name}'
os.makedirs(dst, exist_ok=True)
for f in ('patch.diff', 'demo_test.py', 'notes.md'):
    if os.path.exists(f'{src}/{f}'):
        shutil.copy(f'{src}/{f}', f'{dst}/{f}')
val = open(f'{src}/validation.txt').read()
notes = open(f'{src}/notes.md').read() if os.path.exists(f'{src}/notes.md') else ''
meta = {
    'property': pid,
    'origin': 'independent sub-agent given only the property text and a scratch worktree',
    'files_changed': sorted({l.split(' b/')[-1].strip() for l in open(f'{src}/patch.diff') if l.startswith('diff --git')}),
    'needs_to_manifest': '(see notes.md)',
    'validated_by_me': {
        'suite_no_new_failures': 'SUITE: no new failures' in val,
        'demo_fails_with_change': 'DEMO_WITH exit=1' in val,
        'demo_passes_without_change': 'DEMO_WITHOUT exit=0' in val,
        'commands': ['tools/validate_seed.sh (repository suite vs. recorded baseline of 40 pre-existing failures/errors; '
                     'demo with the change; demo after `git checkout -- kopf` (no stash))'],
    },
    'detected_by': [],
}
if os.path.exists(f'{dst}/meta.json'):
    old = json.load(open(f'{dst}/meta.json'))
    meta['detected_by'] = old.get('detected_by', [])
    meta['needs_to_manifest'] = old.get('needs_to_manifest', meta['needs_to_manifest'])
json.dump(meta, open(f'{dst}/meta.json', 'w'), indent=1)
print(dst, meta['validated_by_me'])
