#!/venv/bin/python
"""Apply every kept seeded change to a scratch worktree of /repo (never /repo itself), run the quick check of its property
(and any extra checks listed), and record the result in seeded/<id>/meta.json.   usage: regress_seeds.py [seed-id ...]"""
import json, os, re, subprocess, sys
WT = '/tmp/wt/regress'
ROOT = '/verif/seeded'
EXTRA = {'C04-a': ['C05'], 'C09-a': ['C06', 'C09'], 'C03-b': ['C14'], 'C04-b': ['C16'], 'C06-b': ['C08'], 'C08-b': ['C06'],
         'C02-c': ['C14'], 'C03-c': ['C01'], 'C10-c': ['C09'], 'C14-c': ['C05'], 'C11-d': ['C09'], 'C08-e': ['C09', 'C06'], 'C10-e': ['C11'], 'C16-e': ['C04'], 'C15-f': ['C05'], 'C08-f': ['C06'], 'C03-f': ['C04'], 'C02-h': ['C07'], 'C19-h': ['C20'], 'C13-j': ['C09'], 'C02-j': ['C07'], 'C19-j': ['C01'], 'C13-k': ['C09'], 'C01-k': ['C03'], 'C04-k': ['C16']}


def sh(cmd, **kw):
    return subprocess.run(cmd, shell=True, capture_output=True, text=True, **kw)


def main():
    ids = sys.argv[1:] or sorted(os.listdir(ROOT))
    if not os.path.isdir(WT):
        r = sh(f'git -C /repo worktree add --detach {WT} HEAD -q'); assert r.returncode == 0, r.stderr
        sh(f'cp /repo/kopf/_cogs/helpers/versions.py {WT}/kopf/_cogs/helpers/versions.py')
    else:
        sh(f'git -C {WT} checkout -q --detach $(git -C /repo rev-parse HEAD)')
    rows = []
    for sid in ids:
        d = f'{ROOT}/{sid}'
        patch = f'{d}/patch.rebased.diff' if os.path.exists(f'{d}/patch.rebased.diff') else f'{d}/patch.diff'
        sh(f'git -C {WT} checkout -- .')
        r = sh(f'git -C {WT} apply {patch}')
        if r.returncode != 0:
            rows.append((sid, 'PATCH DOES NOT APPLY', r.stderr.strip()[:100])); continue
        meta = json.load(open(f'{d}/meta.json'))
        if 'neutralised' in meta.get('note', ''):
            print(sid, 'skipped (neutralised by a fix; see its meta.json)', flush=True)
            continue
        own = meta['property']
        checks = [own] + [c for c in EXTRA.get(sid, []) if c != own]
        det = []
        for c in checks:
            r = sh(f'cd /verif && KV_OUT=/tmp/kvout/regress KV_REPO={WT} VERIF_SEED=0 timeout 900 ./run check {c} --tier quick')
            kinds = sorted(set(re.findall(r'^  kind=([a-z0-9-]+)', r.stdout, re.M)))
            nviol = len(re.findall(r'^VIOLATION', r.stdout, re.M))
            det.append({'check': c, 'tier': 'quick', 'result': (', '.join(kinds) + ' (VIOLATION)') if r.returncode == 1 and nviol else f'MISSED (rc={r.returncode})'})
            rows.append((sid, c, det[-1]['result']))
            print(sid, c, det[-1]['result'], flush=True)
        meta['detected_by'] = det
        json.dump(meta, open(f'{d}/meta.json', 'w'), indent=1)
    sh(f'git -C {WT} checkout -- .')
    missed = [r for r in rows if 'MISSED' in r[2] or 'APPLY' in r[1]]
    print('\nMISSED:', missed)


main()
