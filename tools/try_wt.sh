#!/bin/bash
# usage: try_wt.sh <worktree-with-change-applied> <check>... ; runs quick checks against a scratch worktree via KV_REPO (never touches /repo); evidence restored.
WT=$1; shift
cd /verif
for c in "$@"; do
  out=$(KV_OUT=/tmp/kvout/try KV_REPO=$WT VERIF_SEED=${VERIF_SEED:-0} timeout ${TRY_TIMEOUT:-900} ./run check $c --tier ${TIER:-quick} 2>&1); rc=$?
  echo "--- $c rc=$rc"; echo "$out" | grep -E "^VIOLATION|HARNESS|Traceback|^\[C" | cut -c1-230 | sort | uniq -c | sort -rn | head -${TRY_LINES:-6}
done
true
