#!/bin/bash
# Validate a seeded change in a scratch worktree (NO git stash: stashes are shared between worktrees):
#  (a) the repository's suite has no new failures with the change,
#  (b) the demonstration fails with the change, (c) passes without it.
# usage: validate_seed.sh <PID> [<worktree>] ; results in /tmp/seeds/<PID>/validation.txt
PID=$1; WT=${2:-/tmp/wt/$PID}; SD=${SEEDROOT:-/tmp/seeds}/$PID
OUT=$SD/validation.txt; : > $OUT
cd $WT || exit 2
git -C $WT diff -- kopf > $SD/patch.check.diff
if [ ! -s $SD/patch.check.diff ]; then echo "NOTE: worktree clean; applying patch.diff" >> $OUT; git -C $WT apply $SD/patch.diff || exit 3; git -C $WT diff -- kopf > $SD/patch.check.diff; fi
if ! diff -q <(grep -v '^index' $SD/patch.diff) <(grep -v '^index' $SD/patch.check.diff) >/dev/null; then echo "NOTE: patch.diff differs from worktree diff; worktree reset to patch.diff" >> $OUT; git -C $WT checkout -- kopf; git -C $WT apply $SD/patch.diff || exit 3; fi
echo "files: $(git -C $WT diff --stat -- kopf | tail -1)" >> $OUT
DEMO=$SD/demo_test.py
NEEDS_COPY=$(grep -l -E "tests/|conftest" $SD/notes.md >/dev/null 2>&1 && grep -oE "tests/[a-zA-Z_/]+/" $SD/notes.md | head -1)
run_demo() { if [ -n "$DEMO_DIR" ]; then cp $DEMO $WT/$DEMO_DIR/test_zz_demo_seed.py; (cd $WT && PYTHONPATH=$WT timeout 600 /venv/bin/python -m pytest -q -p no:cacheprovider --timeout=300 $DEMO_DIR/test_zz_demo_seed.py); rc=$?; rm -f $WT/$DEMO_DIR/test_zz_demo_seed.py; return $rc; else (cd $WT && PYTHONPATH=$WT timeout 600 /venv/bin/python -m pytest -q -p no:cacheprovider --timeout=300 $DEMO); fi; }
DEMO_DIR=${DEMO_DIR:-}
echo "== suite with change" >> $OUT
PYTHONPATH=$WT /venv/bin/python -m pytest -q -p no:cacheprovider --timeout=900 --continue-on-collection-errors -ra 2>&1 | grep -E '^(FAILED|ERROR)' | cut -d' ' -f1,2 | sort -u > $SD/my_with_change_fail.txt
if diff $SD/baseline_fail.txt $SD/my_with_change_fail.txt >> $OUT; then echo "SUITE: no new failures" >> $OUT; else echo "SUITE: DIFFERS" >> $OUT; fi
echo "== demo with change" >> $OUT
run_demo > $SD/demo_with.log 2>&1; echo "DEMO_WITH exit=$?" >> $OUT; tail -3 $SD/demo_with.log >> $OUT
git -C $WT checkout -- kopf
run_demo > $SD/demo_without.log 2>&1; echo "DEMO_WITHOUT exit=$?" >> $OUT; tail -3 $SD/demo_without.log >> $OUT
git -C $WT apply $SD/patch.diff
echo "DONE" >> $OUT
