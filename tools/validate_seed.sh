#!/bin/bash
# Validate a seeded change produced by a sub-agent, in its scratch worktree:
#  (a) the repository's suite has no new failures with the change,
#  (b) the demonstration fails with the change, (c) passes without it.
# usage: validate_seed.sh <PID> [<worktree>] ; results in /tmp/seeds/<PID>/validation.txt
PID=$1; WT=${2:-/tmp/wt/$PID}; SD=/tmp/seeds/$PID
OUT=$SD/validation.txt; : > $OUT
cd $WT || exit 2
git -C $WT diff -- kopf > $SD/patch.check.diff
if ! diff -q <(grep -v '^index' $SD/patch.diff) <(grep -v '^index' $SD/patch.check.diff) >/dev/null; then echo "NOTE: patch.diff differs from worktree diff; using worktree diff" >> $OUT; cp $SD/patch.check.diff $SD/patch.diff; fi
echo "== suite with change" >> $OUT
PYTHONPATH=$WT /venv/bin/python -m pytest -q -p no:cacheprovider --timeout=900 --continue-on-collection-errors -ra 2>&1 | grep -E '^(FAILED|ERROR)' | cut -d' ' -f1,2 | sort -u > $SD/my_with_change_fail.txt
if diff $SD/baseline_fail.txt $SD/my_with_change_fail.txt >> $OUT; then echo "SUITE: no new failures" >> $OUT; else echo "SUITE: DIFFERS" >> $OUT; fi
echo "== demo with change" >> $OUT
DEMO=$SD/demo_test.py
PYTHONPATH=$WT timeout 600 /venv/bin/python -m pytest -q -p no:cacheprovider --timeout=300 $DEMO > $SD/demo_with.log 2>&1; echo "DEMO_WITH exit=$?" >> $OUT; tail -3 $SD/demo_with.log >> $OUT
git -C $WT stash -q
PYTHONPATH=$WT timeout 600 /venv/bin/python -m pytest -q -p no:cacheprovider --timeout=300 $DEMO > $SD/demo_without.log 2>&1; echo "DEMO_WITHOUT exit=$?" >> $OUT; tail -3 $SD/demo_without.log >> $OUT
git -C $WT stash pop -q
echo "DONE" >> $OUT
