#!/bin/bash
# Demo-only re-validation of a stored seed in a dedicated scratch worktree at the seed's base commit:
# the demo passes on the unchanged tree and fails with the patch. usage: revalidate_demo.sh <seed-dir> [<demo-dir-in-repo>]
SD=$1; DEMO_DIR=$2; WT=/tmp/wt/reval; BASE=b92edf0
if [ ! -d $WT ]; then git -C /repo worktree add --detach $WT $BASE -q; cp /repo/kopf/_cogs/helpers/versions.py $WT/kopf/_cogs/helpers/versions.py; fi
git -C $WT checkout -q -- kopf
run_demo() { if [ -n "$DEMO_DIR" ]; then cp $SD/demo_test.py $WT/$DEMO_DIR/test_zz_demo_seed.py; (cd $WT && PYTHONPATH=$WT timeout 600 /venv/bin/python -m pytest -q -p no:cacheprovider --timeout=300 $DEMO_DIR/test_zz_demo_seed.py >/dev/null 2>&1); rc=$?; rm -f $WT/$DEMO_DIR/test_zz_demo_seed.py; return $rc; else (cd $WT && PYTHONPATH=$WT timeout 600 /venv/bin/python -m pytest -q -p no:cacheprovider --timeout=300 $SD/demo_test.py >/dev/null 2>&1); fi; }
run_demo; A=$?
git -C $WT apply $SD/patch.diff || { echo "$SD: PATCH DOES NOT APPLY"; exit 3; }
run_demo; B=$?
git -C $WT checkout -q -- kopf
echo "$(basename $SD): demo_without_exit=$A demo_with_exit=$B"
