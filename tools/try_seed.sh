#!/bin/bash
# usage: try_seed.sh <patch.diff> <check>... ; applies the patch to /repo, runs the quick checks, reverts. Evidence files are restored.
P=$1; shift
cd /verif
git -C /repo diff --quiet || { echo "/repo dirty"; exit 2; }
git -C /repo apply "$P" || exit 3
trap 'git -C /repo checkout -- . ; git -C /verif checkout -- evidence 2>/dev/null' EXIT
for c in "$@"; do
  out=$(VERIF_SEED=${VERIF_SEED:-0} timeout ${TRY_TIMEOUT:-900} ./run check $c --tier ${TIER:-quick} 2>&1); rc=$?
  echo "--- $c rc=$rc"; echo "$out" | grep -E "^VIOLATION|HARNESS|Traceback|^\[C" | cut -c1-230 | sort | uniq -c | sort -rn | head -${TRY_LINES:-8}
  echo "$out" | grep -oE "kind=[a-z0-9-]+" | sort | uniq -c | sort -rn | head -8
done
