#!/venv/bin/python
"""Apply an ad-hoc textual mutation to /repo, run a check, revert. usage: mutate.py <Cnn> <file> <old> <new> [tier]"""
import subprocess, sys
prop, path, old, new = sys.argv[1:5]
tier = sys.argv[5] if len(sys.argv) > 5 else 'quick'
full = f'/repo/{path}'
src = open(full).read()
assert src.count(old) == 1, f'{src.count(old)} occurrences of the old text'
open(full, 'w').write(src.replace(old, new))
try:
    r = subprocess.run(['/verif/run', 'check', prop, '--tier', tier], capture_output=True, text=True)
    lines = [l[:220] for l in r.stdout.splitlines() if l.startswith(('VIOLATION', '  kind', '  t=', '[', 'KNOWN')) or 'HARNESS' in l]
    print('\n'.join(lines[:14])); print(r.stderr[-500:])
    print('exit', r.returncode)
finally:
    subprocess.run(['git', '-C', '/repo', 'checkout', '--', '.'])
