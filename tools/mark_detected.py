#!/venv/bin/python
"""usage: mark_detected.py <seed-name> <check> <violation-kind or 'MISSED'> [needs text]"""
import json, sys
name, check, kind = sys.argv[1:4]
p = f'/verif/seeded/{name}/meta.json'
m = json.load(open(p))
m['detected_by'] = [d for d in m['detected_by'] if d.get('check') != check] + [{'check': check, 'tier': 'quick', 'result': kind}]
m['demo_revalidated_sequentially'] = True
if len(sys.argv) > 4:
    m['needs_to_manifest'] = sys.argv[4]
json.dump(m, open(p, 'w'), indent=1)
