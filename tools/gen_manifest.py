#!/venv/bin/python
"""Regenerates /verif/MANIFEST.json from the table below (claimed checks) + properties.jsonl."""
import json
import os

ROOT = os.path.dirname(os.path.dirname(os.path.abspath(__file__)))

TRUST = ("Trusted: CPython 3.12 asyncio (real Task/Future/Queue, driven by kv/vloop.py instead of a selector loop); "
         "the World's Kubernetes API semantics (kv/world.py, self-tested on every run); the reference models under "
         "kv/ref and in the check; datetime/random seams (kv/shims.py). Bounds (deviations, depth, alphabets) are "
         "reported in the evidence; behaviours beyond them are not covered.")

CHECKS = {
    'C01': dict(
        technique="stateless model checking of the implementation: deviation-bounded exhaustive schedule enumeration "
                  "(virtual asyncio loop) against a reference queueing simulation",
        text="Every event stream of a small alphabet (arrival instants chosen to collide with processing ends and "
             "idle-worker retirement; worker limits; uid-less object; single/double cancellation) is run through the "
             "real queueing.watcher/worker/Scheduler fed by the real watch client from an in-memory API server; for "
             "each, every placement of each arrival among the loop's step boundaries of its instant is enumerated up to "
             "the deviation bound, and every processing interval must equal a boring reference simulation (FIFO per "
             "object, <= L workers, idle retirement), with no duplicate, no overlap, no leaked task.",
        design_ref='DESIGN.md §6 C01'),
    'C02': dict(
        technique="stateless model checking of the implementation: exhaustive outcome-script x lifecycle enumeration, "
                  "deviation-bounded schedule search and exhaustive crash-point enumeration in a closed loop with a fake API server",
        text="The real watcher/processing/progress-storage/patching loop runs against an in-memory API server that feeds "
             "every PATCH back as a watch event. All outcome scripts (len<=3) x lifecycles x foreign events, sub-handlers, "
             "annotation and status storage are enumerated; on top, every placement of foreign events, delayed responses, "
             "late echoes, and a kill before/after the server applied each in-flight PATCH (followed by a restart) up to the "
             "deviation bound. Oracle from invocation log + server write log with an independent decoder of progress "
             "records: no invocation on a view recording the handler as finished; retry == recorded attempts; purge / "
             "last-handled exactly at the closing write; at most one success per cycle outside the stated carve-outs.",
        design_ref='DESIGN.md §6 C02'),
    'C07': dict(
        technique="stateless model checking of the implementation: exhaustive grid of echo/foreign-event release instants "
                  "around the consistency timeout plus deviation-bounded schedule search, closed loop with a fake API server",
        text="Two- and three-step handling cycles run in the real worker/processing/patching loop; 0-2 foreign writes land "
             "between the operator's view and its PATCH; the foreign events and the echo of the PATCH are released by the "
             "simulated network at every pair of instants on a grid spanning the consistency timeout, after idle gaps that "
             "keep or retire the per-object worker; a deviation-bounded search (late responses, timers before deliveries, "
             "reordered user edits) runs on top. Oracle: no change handler runs on a version older than the version returned "
             "by the worker's own latest PATCH before timeout seconds have passed since that response; raw-event handlers "
             "run at the delivery instant.",
        design_ref='DESIGN.md §6 C07'),
    'C03': dict(
        technique="explicit-state history enumeration on the implementation (all external histories to depth d, two spacings) "
                  "plus exhaustive crash-point enumeration and deviation-bounded schedule search, with a quiescence oracle",
        text="Every history up to depth 3 (quick) / 4 (thorough) after the initial create over {spec a->b, b->a, label edit, "
             "status edit, delete, kill+restart, graceful restart, downtime with an edit inside}, in two spacings, with 1 or 2 "
             "handlers per cause that fail their first n attempts, is run through the real closed loop; on the shorter "
             "histories every crash point (kill before/after the server applied each in-flight PATCH, then restart) and a "
             "deviation-bounded timing search run on top. At a horizon 24 virtual seconds after the last external activity: no "
             "more operator writes; no progress records; last-handled == essence; deleted objects gone; every handler of the "
             "outstanding change completed on the final state (the one known way this fails is recorded in known_findings.json).",
        design_ref='DESIGN.md §6 C03'),
    'C05': dict(
        technique="exhaustive input enumeration of the cause decision table on the implementation plus explicit-state "
                  "history enumeration in the closed loop against a reference decision list",
        text="Part 1: the full product (event type x deletion mark x kopf finalizer x foreign finalizer x stored last-handled "
             "{none, empty, equal, different} x essence x first-sight) is fed to the real detect_changing_cause and through the real "
             "process_changing_cause with one handler of every kind; classification and the set of invoked handlers must equal the "
             "ordered decision list. Part 2: every history to depth 3/4 over objects with a spec and bare objects (empty essence) "
             "runs in the closed loop; each change-handler invocation is compared with the cause the reference assigns to the event "
             "being processed (as seen by a raw-event probe) and with the mutual-exclusion clauses; kills and timing deviations on top.",
        design_ref='DESIGN.md §6 C05'),
    'C06': dict(
        technique="stateless model checking of the implementation: scenario-family enumeration with deviation-bounded schedule "
                  "search (conflicting foreign edits, 422s, restarts) and a per-write oracle on the fake API server's log",
        text="Mandatory/optional delete handlers with outcome scripts and toggled label filters, daemons with every reaction x "
             "cancellation backoff/timeout x exit delay, a timer sleeping across the deletion, foreign finalizers, forced removal "
             "of kopf's finalizer and restarts run in the closed loop; deviations place foreign edits between the operator's view "
             "and its PATCHes (producing 422 conflicts and carried-over patches). Every operator write is judged against the "
             "server-side object before it: the finalizer leaves a deleting object only when every matching mandatory delete "
             "handler finished and every matching daemon/timer exited or was abandoned after backoff+timeout; it leaves a live "
             "object only when nothing matching requires it; foreign finalizers are never changed; eventual release/addition/"
             "removal within 20 virtual seconds. One genuine defect found this way was repaired (fix: commit in /repo).",
        design_ref='DESIGN.md §6 C06'),
    'C14': dict(
        technique="explicit-state history enumeration on the implementation (restarts, re-listings, reconnects to depth d) plus "
                  "crash-point and deviation-bounded schedule search, closed loop with a fake API server",
        text="An object is handled by a first operator process; a second process starts; every history to depth 3/4 over {spec edit, "
             "status edit, delete, 410 Gone re-listing, EOF reconnect, graceful restart (the new process starts only after the old "
             "one exited), kill+restart} runs in two spacings (inside/outside the resume retry wait) with three resume handlers (one "
             "opted in for deleted objects) and an object created after the start; kills and timing deviations on top. Per (process, "
             "object, resume handler): at most one success; exactly one at quiescence for handled pre-existing objects without "
             "unfinished progress; none for objects first seen through the watch; none on deleting objects unless opted in.",
        design_ref='DESIGN.md §6 C14'),
    'C04': dict(
        technique="explicit-state search over object bodies with the real framework write operations as transitions, plus "
                  "bounded-exhaustive input enumeration for the diff laws, against independent RFC 7386 / JSON-equality references",
        text="(i)/(ii) breadth-first state graph: from 4 seed bodies every real write operation of the framework (progress store/"
             "purge/touch, diff-base store, finalizer block/allow, result delivery) is applied the way a server applies it "
             "(independent RFC 7386 merge) to depth 2/3 for every storage configuration (Smart default, Annotations with 3 prefixes "
             "x v1/v2, Status x 2, Multi); on every edge the essence computed by the writer AND by every other configuration (another "
             "Kopf operator) must be unchanged. (iii) single-field mutations: spec/payload/labels/annotations must change the essence, "
             "status/system metadata must not. (iv) all ordered pairs of a universe of small JSON bodies: applying diff(a,b) to a gives "
             "b; diff empty iff JSON-equal (booleans are not numbers; null member == absent); reduce() agrees with the diff of the "
             "resolved fields. Two genuine defects found here were repaired (fix: commits).",
        design_ref='DESIGN.md §6 C04'),
    'C15': dict(
        technique="bounded-exhaustive enumeration of handler declarations x object/old/new states on the real registries against an "
                  "executable reading of docs/filters.rst, plus deviation-bounded closed-loop search for the stealth clause",
        text="Every handler declaration over the criteria alphabet (9 handler kinds x label/annotation criteria {none,value,PRESENT,"
             "ABSENT,callback} x field {none,spec.f,spec.g.h} x value/old/new criteria x when) is registered in a real registry and "
             "queried with every relevant object/old/new state ({absent,'x','y',null parent,non-mapping parent} per field; "
             "{absent,'x',''} per label/annotation) and cause reason; the selection must equal filters_ref. Duplicate registrations "
             "are selected once per id. In the closed loop, objects matched by no handler must receive no write at all while matching "
             "ones are handled. One documented-behaviour mismatch is recorded in known_findings.json.",
        design_ref='DESIGN.md §6 C15'),
    'C09': dict(
        technique="explicit-state history enumeration on the implementation (label toggles, deletions, pauses, exits to depth d) "
                  "plus deviation-bounded schedule search, under a virtual loop with a wall-clock stall watchdog",
        text="Daemons with every reaction to stopping (obeys / needs cancellation / ignores both / exits on its own) x cancellation "
             "backoff x timeout, timers of every configuration (interval, idle, both, neither, initial delay) and daemon+timer pairs "
             "run in the real closed loop with the real daemon killer and pause toggle; every history to depth 2/3 over {label off/on, "
             "delete, forced finalizer strip, pause, resume, operator exit} in two spacings, plus a deviation-bounded search. Oracle: no "
             "overlapping runs per (object, handler); start in the instant the matching object is processed; stop flag before "
             "cancellation, cancellation not before the backoff; no restart after an own exit; no loop step stalls (watchdog) and no "
             "operator task fails. Two genuine defects found here were repaired (fix: commits).",
        design_ref='DESIGN.md §6 C09'),
    'C10': dict(
        technique="exhaustive configuration x script enumeration on the implementation in virtual time with exact timer laws as the "
                  "reference model, plus deviation-bounded schedule search",
        text="12 timer configurations (interval, sharp, idle, initial_delay) x scripts of two runs over 4 outcomes x 4 durations "
             "(shorter/equal/longer than the interval) x essential edits at chosen instants (incl. exactly when a run is due) run in "
             "the real closed loop; every start/end instant must equal the timer laws exactly (dyadic virtual time): no overlap; first "
             "start = spawn + initial delay; next start = end + interval or the next grid point when sharp, postponed by idling after "
             "the last essential change the operator saw; error delay/backoff after failures; nothing after a permanent failure. A "
             "deviation-bounded search on representatives demands the inequality forms.",
        design_ref='DESIGN.md §6 C10'),
    'C11': dict(
        technique="exhaustive policy-product enumeration on the implementation (5 handler carriers) against a reference retry "
                  "schedule, plus exhaustive crash-point enumeration for persisted handlers",
        text="errors mode x retries x timeout x backoff x outcome scripts for change handlers, sub-handlers, daemons, timers and "
             "startup activities: the observed (virtual time, retry) sequence of every handler must equal retry_ref exactly "
             "(classification, look-ahead limits, delays, permanence, IGNORED mode); for change and sub-handlers additionally a kill "
             "before/after the server applied each in-flight PATCH followed by a restart, with the statement-level laws (retry numbers "
             "never skip or go back, gaps >= requested delay, invocations <= retries + crashes). One genuine defect (timers firing "
             "again after a permanent failure) was repaired.",
        design_ref='DESIGN.md §6 C11'),
    'C16': dict(
        technique="bounded-exhaustive id-pool enumeration and explicit-state search over one object's annotations/status with the "
                  "real storages, against a dictionary reference model and an independent RFC 7386 merge",
        text="An id pool built to collide (lengths around the 63-character cut, shared long prefixes, sub-handler paths, field "
             "suffixes, every character of the alphabet at first/last/cut positions) plus all ids up to length 3/4 over an 8-letter "
             "alphabet x 7 storage configurations x {plain object, ReplicaSet owned by a Deployment}: store/apply/fetch round trip, "
             "purge (also store+purge in one patch), validity of every written annotation name, name stability across fresh storage "
             "objects, user-data isolation, no cross-talk between long ids sharing a prefix; then a state graph to depth 3/4 over "
             "store/purge/touch/diff-base operations of the operator and of a foreign-prefix operator and user edits against a "
             "dictionary model. The invalid names for ids with a non-alphanumeric edge character are a recorded known finding.",
        design_ref='DESIGN.md §6 C16'),
    'C18': dict(
        technique="bounded-exhaustive enumeration of webhook declarations x requests x outcome sets x patch programs on the real "
                  "serve_admission_request, against independent RFC 6902 / RFC 7386 references",
        text="(A) 48 webhook declarations x 24 requests x id/type hints: exactly the matching handlers run (mutating ones not on DELETE "
             "unless opted in), allowed iff none raised; outcome sets of 2/3 handlers: message/code of the most specific error, "
             "warnings in order. (B) permutations of up to 2/3 of 21 patch statements (set, overwrite, delete present/absent, nested "
             "under absent/mapping/scalar parents, type changes, keys with / ~ . and unicode, transformation functions) x 3 reviewed "
             "objects: applying the returned JSON patch with an independent RFC 6902 implementation must equal transformations(RFC 7386 "
             "merge(object, requested)) up to empty mappings. One genuine defect (mapping over scalar crashed the request) was repaired.",
        design_ref='DESIGN.md §6 C18'),
    'C08': dict(
        technique="stateless model checking of the implementation: exhaustive enumeration of the position of concurrent foreign writes "
                  "and injected 404/422 answers among the requests of patch_obj and its carry-over rounds, judged on the server's log",
        text="The real patch_obj + Patch.as_json_patch + carry-over loop run against the in-memory API server for every patch content "
             "(none/body/status/both) x transformation set (add/remove finalizer among foreign ones, a non-idempotent append, a status "
             "counter, combinations) x status subresource on/off x foreign writes (spec, foreign finalizer, status, delete, "
             "delete+recreate, pairs); the explorer enumerates every placement of the foreign writes among the up-to-four requests "
             "and the later rounds, and injects 404/422 answers. Oracle on the request log: complete merge fields, once, on the right "
             "endpoint; every successful JSON-patch == transformations applied to the state immediately before it; nothing written on "
             "422 and everything carried forward; each transformation effective exactly once overall; 404 silent; no write on another "
             "uid (the name-reuse hole of merge-patches is a recorded known finding).",
        design_ref='DESIGN.md §6 C08'),
    'C12': dict(
        technique="exhaustive fault-sequence enumeration (the full answer tree per request) on the real API client and vault under a "
                  "virtual clock, plus scenario enumeration and deviation-bounded search for per-object containment in the closed loop",
        text="(a) api.request via auth.authenticated with a real Vault and authenticator: every answer sequence until the request ends "
             "(15 answer kinds: 5xx, 403, 429 with Retry-After as header or retryAfterSeconds, other 4xx, timeout, connection error) x "
             "error_backoffs {(), scalar, list, re-iterable} x enforce_retry_after: attempt instants and the final exception class "
             "must equal api_retry_ref; expired credentials with 1-3 concurrent requests, a late one, slow 401 answers and a second "
             "expiry: exactly one login per invalidation, all requests finish on the fresh session, invalidated sessions are never "
             "reused. (b) two objects in the closed loop: object a's PATCHes fail for the first 1-4 attempts while events keep "
             "arriving inside the pause windows, for three error_delays settings: a's processing instants must equal the pause "
             "schedule (growing, repeating the last delay, reset by success), b is processed at its arrival instants, no operator "
             "task fails, a converges once errors stop and an event arrives.",
        design_ref='DESIGN.md §6 C12'),
    'C13': dict(
        technique="explicit-state history enumeration with several whole operator instances on one virtual loop and clock (starts, "
                  "graceful exits, kills, foreign peering records to depth d) plus deviation-bounded keep-alive latency search",
        text="Two or three complete kopf.operator() instances (priorities 0, 100, 0) run in one virtual loop against one in-memory API "
             "server sharing a ClusterKopfPeering object (each seeing only its own tasks, as separate processes would). Every history "
             "to depth 2/3 over {start, graceful stop, kill, restart, foreign record live-high / long-dead / odd} in stable (100 s) and "
             "unstable (20 s) spacings with both ends of the keep-alive jitter; a deviation-bounded search moves the clock while "
             "keep-alive PATCHes are in flight. Judged from the API log and the open watches: in stable configurations exactly the "
             "unique top-priority operator holds a watch (nobody on shared/foreign top priority); paused operators start no handlers "
             "after a drain margin; own records never expire; records vanish on graceful exit; dead records get cleaned; no handler "
             "succeeds twice for one object across pauses.",
        design_ref='DESIGN.md §6 C13'),
    'C17': dict(
        technique="explicit-state history enumeration on the implementation against a dictionary reference model of the index, plus "
                  "deviation-bounded schedule search over the initial listings of two resource kinds on the whole operator",
        text="(a) an index whose function is scripted by the object's content (dict k1 / dict k2 / two keys / scalar / None / temporary / "
             "permanent / ignored error) with a label filter runs in the real closed loop; every history to depth 3 over 2 objects (2/3 "
             "over 3 objects) of set-code / label off / label on / delete / wait; after every event a raw-event probe reads the index "
             "through the read-only kwarg view (keys, values, len, in, bool) and it must equal a dictionary model of docs/indexing.rst. "
             "(b) the whole operator with two indexed kinds with pre-existing objects, create/resume handlers, a daemon and a timer: "
             "every placement (deviation-bounded) of delayed answers and deliveries of the two initial listings; no handler, daemon or "
             "timer may run while the indices it receives lack any object that existed at the start.",
        design_ref='DESIGN.md §6 C17'),
    'C19': dict(
        technique="stateless model checking of the watch client: stream faults at every scripted position plus deviation-bounded fault "
                  "placement; explicit-state history enumeration with step-level revision placement for the orchestrator",
        text="(a) the real infinite_watch/continuous_watch/watch_objs/api.stream code consumes an in-memory API server while two objects "
             "are created/modified/deleted and one stream fault (EOF, reset, payload error, client timeout, 410 in-stream, compaction + "
             "EOF, BOOKMARK, unknown type, unknown ERROR, pause/resume; thorough: pairs) strikes at every position; a deviation-bounded "
             "search additionally places faults (incl. 429/500/connection errors on connect) anywhere. From the request log and the "
             "yielded events: watches resume from the newest version seen, never newer; everything the server delivered is yielded; "
             "the consumer's final view equals the server's; unknown ERRORs end the stream; nothing is requested while paused and a "
             "resume starts with a listing. (b) the real orchestrator over every meaningful history to depth 3/4 of namespace/resource "
             "additions and removals, spaced and back-to-back with every placement of a revision among the steps of the previous "
             "adjustment: exactly one open watch per served pair, none else. One defect repaired, one recorded as known finding.",
        design_ref='DESIGN.md §6 C19'),
    'C20': dict(
        technique="stateless model checking of the whole operator: scripted stop triggers and task failures at every instant class "
                  "plus a deviation-bounded search that moves the trigger to every choice point of the run",
        text="The complete kopf.operator() with peering runs against the in-memory API server with startup/cleanup scripts (incl. two "
             "handlers where one fails while the other retries), a daemon of each reaction, a slow change handler; the stop flag or a "
             "task cancellation strikes at 7 instants from t=0 on, and (search group) at every choice point; failures are injected "
             "into the resource, CRD and peering watches and into every object worker. Oracle on the global order: no API request "
             "before startup succeeded, none at all and a raise after a failed startup, ready only after startup; after a trigger or "
             "failure operator() returns within the grace periods re-raising the failure, daemons exited or abandoned, peering record "
             "withdrawn, cleanup last, no API call after cleanup began. One genuine defect (unsupervised watcher tasks) was repaired; "
             "exits blocked by cancellation-swallowing daemons are recorded as known findings.",
        design_ref='DESIGN.md §6 C20'),
}


# What the waves of seeded changes added to each check after the text above was written (DESIGN.md section 16).
ADDENDA = {
    'C01': "Also: processors that report patched versions whose echo never comes (consistency bookkeeping must not change the schedule); DELETED events followed by further events of the same key (a uid-less object deleted and re-created within its creation second). Objects first seen through the listing (a kind whose name ends in the letters of 'List', with/without uid); resumed watches across a digit rollover of the resource version. Events the watcher has TAKEN from the watch client are never optional at a cancellation (observed in the step in which its `async for` receives them); watch lines cut into network reads in other ways than one line per read. Streams with a 410 re-listing and a change in the gap, in every state of the object's worker.",
    'C02': "Also: sub-handlers nested two levels deep, resume cycles superseded by essential changes (a resume handler succeeds once per process), pure resume "
           "cycles, ReplicaSets owned by Deployments, a resume handler with sub-handlers superseded in mid-cycle, and a final rule that no progress record is left behind for ever. Several foreign writes before one PATCH (a handler on a view older than the operator's own PATCH counts as the carve-out only after the consistency timeout); parents that call kopf.execute() themselves. One foreign write next to a raw-event handler that patches on every event. A filtered handler that stops matching in mid-cycle and matches again before the cycle closes.",
    'C03': "Also: resume handlers (one retrying / two under asap) in every history with a restart, and the idle-worker tie (the last change arrives in the "
           "very instant the object's worker retires, all step orders); sub-handlers generated per item of a list in the spec while the list shrinks and grows between the steps. Two deletion handlers / immediate retries with a rule that nothing is released before every deletion handler completed; a change taken back between retries (open finding). Handler ids long enough for two differently named annotations per record; a raw-event handler whose patch changes nothing from the second event on (edits 0-20 s apart, with and without retries). Re-listings placed inside the consistency barrier.",
    'C04': "Also: stored-last-handled invariants in the write graph, look-alike annotation keys, a list universe for the diff laws, and the same in vivo: "
           "a closed loop (objects with a spec / empty essence, annotations and status storage, number<->boolean edits, field-narrowed handlers) where "
           "handlers fire exactly once per essential edit and what they are GIVEN (old/new/diff) is exact and free of own writes. Field-restoring configurations (handlers on metadata.annotations / status) over default, status and both orders of multi storages in the own-writes graph and in the loop; another kind's narrowed handlers. Multi-location storages (both orders) in the closed loop with a handler narrowed to one status field. The essence of an object does not depend on which objects the storage served before (an object marked by another operator).",
    'C05': "Also: objects found unhandled by the initial listing, resume handlers only at first sight and never in a creation cycle, explicit "
           "deleted=False, list-tail edits, and a final rule that no essential difference is taken for nothing. Another kind's narrowed handlers in the same operator; ReplicaSets owned by Deployments. The watch event as it came off the wire vs. the body it is judged by; a kind with a daemon and a raw-event handler whose patch changes nothing, edits / deletion 1-6 s later. An essential foreign edit while a handler runs.",
    'C06': "Also: kopf's finalizer between two foreign ones, histories where nothing happens after a version conflict, a label switched off and on again "
           "around the release (group completing deviation bound 2), sibling daemons of which one exits on its own, backoff >= timeout. A label-filtered daemon that is slow to leave, relabelled before it has left, then deleted. Zero cancellation timeouts / backoffs; one function decorated for two causes (namesake handlers) with the object deleted in mid-cycle.",
    'C07': "Also: daemons/timers spawned in the instant of the matching event while the barrier is up, a raw-event handler that writes through its patch, "
           "and a worker idle timeout shorter than the consistency timeout. Resource versions that gain a digit between the foreign write and the own patch; a raw-event handler whose patch follows foreign status edits. Re-listings / reconnects while a change handler still runs.",
    'C08': "Also: the framework's own carry-over (processing.py) in the closed loop with label toggles and a user transformation (patch.fns) that is "
           "undone later by somebody else, or whose delivering cycle fails as a whole (500) after the conflict; objects without a status stanza. The status subresource as DISCOVERED by the whole operator for kinds whose plurals stand in a prefix relation. Sibling daemons/timers spawned by one event, each delivering a field and a non-idempotent transformation of its own: nothing delivered again, nothing duplicated, everything delivered. What is accumulated while handling the DELETED event of a gone object goes nowhere (the name re-taken at once; operators without change handlers).",
    'C09': "Also: two spawned handlers per object living and dying separately (asked to stop only with a reason), bounded exit of the operator, "
           "backoff >= timeout; synchronous (threaded) daemons told to stop more than once. A second object-level reason to stop inside the backoff of the first. The operator pauses / exits while an event of one of two objects is being processed (every step boundary of that instant); 'never cancelled' judged under every non-time deviation. Daemons that take their time to leave under short pauses; an object that vanishes while its processing is throttled after an error.",
    'C10': "Also: label-filter toggles during a slow run (no self-overlap), zero backoff. Schedules at the scale of days.",
    'C11': "Also: the limits of a parent whose sub-handler keeps failing, background handlers with a running sibling and later events, zero backoff, "
           "downtimes that push the next attempt behind the timeout (fractional, seconds, more than a day), the same on a ReplicaSet owned by a Deployment. A deletion handler taking over from a handler that waits for its retry. A timer with idle= whose retries are postponed by essential edits (per-cycle limits).",
    'C12': "Also: attempts that take time before they fail (the pause counts from the failure); a login handler that re-offers credentials invalidated earlier. Nothing is sent on a session after its 401 came back (issue times). error_delays as a re-iterable that is no Collection, and as a list. Connections dropped after the request was sent / reset by the peer.",
    'C13': "Also: pauses only for live blockers and resumes only without them (every opening/closing of a watch is judged), operators with non-default "
           "lifetimes against records that state none, a failing keep-alive around a slow graceful exit (the record stays withdrawn), lifetimes of a day and more. A keep-alive renewal failing for good (the operator has to go down); foreign records with UTC offsets. One instance per daemon across a pause shorter than the daemon's exit.",
    'C14': "Also: permanently failing handlers, explicit deleted=False, lingering deletions, slow resume handlers with re-listings during their run. Objects with an empty essence. One PATCH of the new process rejected by the server (every one in turn): a rejected closing write does not repeat the resume handlers. A LIST / WATCH request failing on the connection level (the first LIST of the new process among them).",
    'C15': "Also: two-key label/annotation criteria (every ordered pair of criterion kinds x key states x handler family, selection and prematch) and one "
           "function stacked twice under one id with different criteria. Field criteria on a status field through falsy values in the closed loop; 70 resource-selector spellings against 7 resources. Objects that used to match and do not any more keep no finalizer (with / without daemons, left alone / deleted / restart). Sub-handlers declared with criteria.",
    'C16': "Also: empty and odd essences, look-alike user annotations, and after every operation: the essence contains no own record and all user data. One long-lived storage instance serving objects of both kinds (plain, ReplicaSet of a Deployment) in every order vs. a fresh instance per operation. Records kept directly under status (flat fields): the user's status fields stay in the essence.",
    'C17': "Also: empty-mapping results, a handled kind without an index next to an indexed one (both visiting orders), same-named objects of two kinds. Equal values from different objects; the index under test without a sibling index. Bursts: events of one object queue up behind a slow raw-event handler; every one of them is indexed before its handlers look at the index. One indexed kind served in two namespaces.",
    'C18': "Also: number<->boolean swaps, other spellings of the DELETE opt-in, strict standard-alphabet base64 decoding of the returned patch, one transformation function requested twice. Field criteria of admission handlers (the reviewed object decides); mutating handlers on DELETE reviews. Values that relocate (renamed fields, reordered lists).",
    'C19': "Also: resource versions that gain a digit, namespaced mandatory peering against namespace removal, a cluster-scoped kind, and group (c): the "
           "whole operator (namespaces=['n*'], by-name and by-category handlers) while CRDs, versions, categories and namespaces come and go in the fake "
           "cluster - through the real observation and orchestration code. Unknown ERROR events in the stream of any served pair (peering included) must surface; list/watch requests throttled (429) beyond the client's retries; a watch that returns silently. Watch lines cut into network reads in other ways than one line per read (newline alone / leading, mid-line cuts, 3-byte reads). A CRD that is established (and listed by discovery) only after its ADDED event.",
    'C20': "Also: more objects than workers at the stop (nothing is worked off afterwards), synchronous (threaded) startup handlers with the stop before, "
           "during and after their run (threads emulated as uncancellable futures with a declared virtual duration), daemons without a cancellation timeout under failures of essential tasks. The daemon's object deleted shortly before the stop / cancellation / failure. A stop / failure while the answer to a keep-alive PATCH is in flight.",
}


def main() -> None:
    props = [json.loads(l) for l in open(os.path.join(ROOT, 'properties.jsonl'))]
    na_reasons = {}
    na_path = os.path.join(ROOT, 'tools', 'not_applicable.json')
    if os.path.exists(na_path):
        na_reasons = json.load(open(na_path))
    checks = []
    for p in props:
        pid = p['id']
        if pid not in CHECKS:
            continue
        c = CHECKS[pid]
        checks.append({
            'property_id': pid,
            'quick_cmd': f'./run check {pid} --tier quick',
            'thorough_cmd': f'./run check {pid} --tier thorough',
            'evidence_file': f'/verif/evidence/{pid}.json',
            'replay_cmd_template': './run replay {path}',
            'engine': 'kv',
            'level_claimed': {'category': c.get('category', 'model_checking'), 'text': c['text'] + (' ' + ADDENDA[pid] if pid in ADDENDA else ''),
                              'design_ref': c['design_ref']},
            'level_note': c.get('note', TRUST),
            'technique': c['technique'],
        })
    manifest = {
        'version': 1,
        'setup_cmd': './run selftest',
        'hooks': {
            'guard': 'KOPF_VERIF',
            'enable': "no hooks exist in /repo: checks put /repo first on PYTHONPATH and drive kopf through its public "
                      "AiohttpSession credentials seam and module attributes (datetime/random), so nothing is built",
            'baseline_off_cmd': 'cd /repo && /venv/bin/python -m pytest -ra -q -p no:cacheprovider --timeout=900 '
                                '--continue-on-collection-errors',
            'source_commits': [],
            'add_only': True,
        },
        'engines': [{
            'name': 'kv', 'path': '/verif/kv',
            'serves_properties': [c['property_id'] for c in checks],
            'kind_free_text': 'hand-written stateless/explicit-state model checker for asyncio code: controlled event '
                              'loop with virtual time, in-memory Kubernetes API server, deviation-bounded DFS over '
                              'environment choices, bounded-exhaustive input/state-graph enumeration for pure parts',
        }],
        'checks': checks,
        'not_applicable': [
            {'property_id': p['id'],
             'reason': na_reasons.get(p['id'], 'check not built yet (work in progress; planned in DESIGN.md section 6)')}
            for p in props if p['id'] not in CHECKS
        ],
        'notes': 'See DESIGN.md. Exit codes: 0 held / 1 VIOLATION / 2 harness error (never with a VIOLATION line).',
    }
    with open(os.path.join(ROOT, 'MANIFEST.json'), 'w') as f:
        json.dump(manifest, f, indent=1)
    print('MANIFEST.json:', len(checks), 'checks,', len(manifest['not_applicable']), 'not applicable')


if __name__ == '__main__':
    main()
