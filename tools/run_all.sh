#!/bin/bash
# Runs every claimed check once; prints one summary line per check plus any VIOLATION / KNOWN-FINDING / HARNESS lines.
# usage: run_all.sh [tier] [seed]
TIER=${1:-quick}; SEED=${2:-0}
cd "$(dirname "$0")/.."
for c in C01 C02 C03 C04 C05 C06 C07 C08 C09 C10 C11 C12 C13 C14 C15 C16 C17 C18 C19 C20; do
  out=$(VERIF_SEED=$SEED timeout 3600 ./run check $c --tier $TIER 2>&1); rc=$?
  echo "$out" | grep -E "^VIOLATION|HARNESS|Traceback" | cut -c1-200
  echo "$out" | grep -E "^KNOWN-FINDING" | cut -c1-90
  echo "rc=$rc $(echo "$out" | grep -E '^\[C' | cut -c1-260)"
done
