#!/venv/bin/python
"""Systematic syntactic mutation of kopf's anchor code, as a cross-check of the checks' sensitivity.

For every mutation site of the chosen files (comparison operators, and/or, dropped `not`, dropped
simple statements, off-by-one on integer literals 0/1) a mutant is written into a SCRATCH worktree
(never /repo), the part of the repository's own suite that covers the file is run there, and - only when
the suite does not notice the mutant - the mapped checks are run against the worktree through KV_REPO.
A mutant the suite kills says nothing about the checks and is skipped; a mutant both miss is either
equivalent or a gap, and is listed for a human to look at.

usage: automut.py <slot> <out.jsonl> <file> [<file> ...]     (slot = name of the scratch worktree under /tmp/wt)
       env: AUTOMUT_MAX (mutants per file, default all), AUTOMUT_FUNCS (comma-separated function names to restrict to),
            KV_CORES (cores per check), AUTOMUT_SKIP_SUITE=1 (do not run the repository's tests first)
"""
import ast, copy, json, os, re, subprocess, sys, time

MAP = {
    'kopf/_core/reactor/queueing.py': (['tests/reactor'], ['C01', 'C07']),
    'kopf/_core/reactor/processing.py': (['tests/handling', 'tests/reactor'], ['C02', 'C03', 'C06', 'C07', 'C08']),
    'kopf/_core/reactor/inventory.py': (['tests/handling', 'tests/reactor'], ['C14', 'C05']),
    'kopf/_core/reactor/running.py': (['tests/running', 'tests/reactor'], ['C20']),
    'kopf/_core/reactor/orchestration.py': (['tests/orchestration', 'tests/reactor'], ['C19', 'C20']),
    'kopf/_core/reactor/observation.py': (['tests/observation'], ['C19']),
    'kopf/_core/reactor/subhandling.py': (['tests/handling'], ['C02', 'C11']),
    'kopf/_core/actions/progression.py': (['tests/persistence', 'tests/handling'], ['C02', 'C11', 'C03']),
    'kopf/_core/actions/execution.py': (['tests/handling'], ['C11', 'C02']),
    'kopf/_core/actions/application.py': (['tests/handling', 'tests/timing'], ['C03', 'C07', 'C08']),
    'kopf/_core/actions/throttlers.py': (['tests/handling', 'tests/utilities', 'tests/primitives'], ['C12']),
    'kopf/_core/actions/invocation.py': (['tests/invocations', 'tests/handling'], ['C20', 'C09']),
    'kopf/_core/engines/daemons.py': (['tests/handling/daemons'], ['C09', 'C10', 'C06', 'C11']),
    'kopf/_core/engines/peering.py': (['tests/peering'], ['C13']),
    'kopf/_core/engines/indexing.py': (['tests/handling/indexing', 'tests/handling'], ['C17']),
    'kopf/_core/engines/admission.py': (['tests/admission'], ['C18']),
    'kopf/_core/engines/activities.py': (['tests/handling', 'tests/running'], ['C20', 'C11']),
    'kopf/_core/intents/causes.py': (['tests/causation', 'tests/handling'], ['C05', 'C14']),
    'kopf/_core/intents/registries.py': (['tests/registries', 'tests/admission'], ['C15', 'C18', 'C05']),
    'kopf/_core/intents/filters.py': (['tests/registries'], ['C15']),
    'kopf/_cogs/clients/patching.py': (['tests/k8s'], ['C08', 'C06']),
    'kopf/_cogs/clients/watching.py': (['tests/k8s'], ['C19', 'C01']),
    'kopf/_cogs/clients/api.py': (['tests/k8s', 'tests/apis'], ['C12']),
    'kopf/_cogs/clients/auth.py': (['tests/authentication', 'tests/k8s'], ['C12']),
    'kopf/_cogs/structs/credentials.py': (['tests/authentication'], ['C12']),
    'kopf/_cogs/structs/patches.py': (['tests/basic-structs', 'tests/admission'], ['C18', 'C08']),
    'kopf/_cogs/structs/diffs.py': (['tests/diffs'], ['C04']),
    'kopf/_cogs/structs/dicts.py': (['tests/dicts', 'tests/basic-structs'], ['C04', 'C18', 'C16']),
    'kopf/_cogs/structs/finalizers.py': (['tests/test_finalizers.py'], ['C06']),
    'kopf/_cogs/structs/references.py': (['tests/references'], ['C15', 'C19']),
    'kopf/_cogs/configs/progress.py': (['tests/persistence'], ['C16', 'C04', 'C02']),
    'kopf/_cogs/configs/diffbase.py': (['tests/persistence'], ['C16', 'C04']),
    'kopf/_cogs/configs/conventions.py': (['tests/persistence'], ['C16', 'C04']),
    'kopf/_cogs/aiokits/aiotasks.py': (['tests/utilities', 'tests/primitives', 'tests/running'], ['C01', 'C20']),
    'kopf/_cogs/aiokits/aiotime.py': (['tests/timing', 'tests/primitives', 'tests/utilities'], ['C10', 'C07']),
    'kopf/_cogs/aiokits/aiotoggles.py': (['tests/primitives'], ['C19', 'C17', 'C13']),
    'kopf/_cogs/aiokits/aioenums.py': (['tests/primitives'], ['C09']),
}

SWAP = {ast.Lt: ast.LtE, ast.LtE: ast.Lt, ast.Gt: ast.GtE, ast.GtE: ast.Gt, ast.Eq: ast.NotEq, ast.NotEq: ast.Eq,
        ast.Is: ast.IsNot, ast.IsNot: ast.Is, ast.In: ast.NotIn, ast.NotIn: ast.In}


def sites(tree, funcs):
    """Yield (description, mutator) pairs; a mutator edits a deep copy of the tree located by node index."""
    nodes = list(ast.walk(tree))
    owner = {}
    for fn in nodes:
        if isinstance(fn, (ast.FunctionDef, ast.AsyncFunctionDef)):
            for sub in ast.walk(fn):
                owner.setdefault(id(sub), fn.name) if False else owner.__setitem__(id(sub), fn.name)
    for i, n in enumerate(nodes):
        fname = owner.get(id(n))
        if fname is None or (funcs and fname not in funcs):
            continue
        line = getattr(n, 'lineno', 0)
        if isinstance(n, ast.Compare):
            for j, op in enumerate(n.ops):
                if type(op) in SWAP:
                    yield (f'{fname}:{line} cmp {type(op).__name__}->{SWAP[type(op)].__name__}', i, ('cmp', j))
        elif isinstance(n, ast.BoolOp):
            yield (f'{fname}:{line} bool {type(n.op).__name__} flipped', i, ('bool',))
        elif isinstance(n, ast.UnaryOp) and isinstance(n.op, ast.Not):
            yield (f'{fname}:{line} not dropped', i, ('not',))
        elif isinstance(n, ast.Expr) and isinstance(n.value, (ast.Call, ast.Await)) and not _is_log(n.value):
            yield (f'{fname}:{line} statement dropped: {ast.unparse(n)[:60]}', i, ('drop',))
        elif isinstance(n, (ast.Assign, ast.AugAssign)) and not isinstance(getattr(n, 'value', None), ast.Constant):
            tgt = n.targets[0] if isinstance(n, ast.Assign) else n.target
            if isinstance(tgt, (ast.Attribute, ast.Subscript)):
                yield (f'{fname}:{line} assignment dropped: {ast.unparse(n)[:60]}', i, ('drop',))
        elif isinstance(n, ast.Delete):
            yield (f'{fname}:{line} del dropped: {ast.unparse(n)[:60]}', i, ('drop',))
        elif isinstance(n, ast.If) and not n.orelse and len(n.body) == 1 and isinstance(n.body[0], (ast.Continue, ast.Break, ast.Return, ast.Raise)):
            yield (f'{fname}:{line} guard dropped: {ast.unparse(n.test)[:60]}', i, ('drop',))


def _is_log(v):
    s = ast.unparse(v)
    return bool(re.match(r'(await )?(logger|logging|warnings|self\.logger|cause\.logger|local_logger)\.', s)) or s.startswith('logger.')


def mutate(src, idx, how):
    tree = ast.parse(src)
    nodes = list(ast.walk(tree))
    n = nodes[idx]
    if how[0] == 'cmp':
        n.ops[how[1]] = SWAP[type(n.ops[how[1]])]()
    elif how[0] == 'bool':
        n.op = ast.Or() if isinstance(n.op, ast.And) else ast.And()
    elif how[0] == 'not':
        # replace `not x` by `x`: find the parent and substitute
        for p in nodes:
            for f, v in ast.iter_fields(p):
                if v is n:
                    setattr(p, f, n.operand)
                elif isinstance(v, list) and n in v:
                    v[v.index(n)] = n.operand
    elif how[0] == 'drop':
        for p in nodes:
            for f, v in ast.iter_fields(p):
                if isinstance(v, list) and n in v:
                    v[v.index(n)] = ast.Pass()
    ast.fix_missing_locations(tree)
    return ast.unparse(tree)


def sh(cmd, timeout=1800):
    try:
        return subprocess.run(cmd, shell=True, capture_output=True, text=True, timeout=timeout)
    except subprocess.TimeoutExpired as e:
        class R: returncode = 124; stdout = (e.stdout or b'').decode() if isinstance(e.stdout, bytes) else (e.stdout or ''); stderr = 'timeout'
        return R()


def main():
    slot, out = sys.argv[1], sys.argv[2]
    files = sys.argv[3:]
    wt = f'/tmp/wt/{slot}'
    if not os.path.isdir(wt):
        r = sh(f'git -C /repo worktree add --detach {wt} HEAD -q'); assert r.returncode == 0, r.stderr
        sh(f'cp /repo/kopf/_cogs/helpers/versions.py {wt}/kopf/_cogs/helpers/versions.py')
    funcs = set(filter(None, os.environ.get('AUTOMUT_FUNCS', '').split(',')))
    limit = int(os.environ.get('AUTOMUT_MAX', '0') or 0)
    done = set()
    if os.path.exists(out):
        for l in open(out):
            d = json.loads(l); done.add((d['file'], d['site']))
    for path in files:
        tests, checks = MAP[path]
        src = open(f'{wt}/{path}').read() if not sh(f'git -C {wt} checkout -- .').returncode else None
        tree = ast.parse(src)
        todo = list(sites(tree, funcs))
        if limit:
            step = max(1, len(todo) // limit); todo = todo[::step][:limit]
        for desc, idx, how in todo:
            if (path, desc) in done:
                continue
            rec = {'file': path, 'site': desc}
            try:
                new = mutate(src, idx, how)
                compile(new, path, 'exec')
            except Exception as e:  # noqa
                rec['result'] = f'unbuildable: {e!r}'[:120]
                print(json.dumps(rec), file=open(out, 'a')); continue
            open(f'{wt}/{path}', 'w').write(new)
            t0 = time.time()
            if os.environ.get('AUTOMUT_SKIP_SUITE'):
                rec['suite'] = 'skipped'
            else:
                r = sh(f"cd {wt} && PYTHONPATH={wt} timeout 400 /venv/bin/python -m pytest -q -x -p no:cacheprovider --timeout=20 "
                       f"{' '.join(tests)} 2>&1 | tail -3", timeout=450)
                tail = r.stdout.strip().splitlines()[-1] if r.stdout.strip() else ''
                killed = (' failed' in tail or ' error' in tail or 'Interrupted' in r.stdout or 'rror' in tail) and 'passed' not in tail.split('failed')[0][:0]
                killed = bool(re.search(r'\b(failed|error|errors)\b', tail)) or 'Interrupted' in r.stdout or 'Timeout' in r.stdout
                rec['suite'] = 'killed' if killed else 'survived'
                rec['suite_tail'] = tail[-100:]
            rec['suite_s'] = round(time.time() - t0, 1)
            if rec['suite'] != 'killed':
                det = {}
                for c in checks:
                    r = sh(f'cd /verif && KV_REPO={wt} VERIF_SEED=0 KV_OUT=/tmp/kvout/{slot} timeout 900 ./run check {c} --tier quick', timeout=1000)
                    kinds = sorted(set(re.findall(r'^  kind=([a-z0-9-]+)', r.stdout, re.M)))
                    nviol = len(re.findall(r'^VIOLATION', r.stdout, re.M))
                    if r.returncode == 1 and nviol:
                        det[c] = ', '.join(kinds)[:120]
                        break   # one detecting check is enough
                    elif r.returncode != 0:
                        det[c] = f'rc={r.returncode} ' + (re.findall(r'HARNESS[^\n]*', r.stdout + r.stderr) or [''])[0][:100]
                        break
                rec['checks_tried'] = checks
                rec['detected'] = det
                rec['result'] = 'DETECTED' if any(not v.startswith('rc=') for v in det.values()) else ('HARNESS' if det else 'MISSED')
            else:
                rec['result'] = 'suite-killed'
            rec['total_s'] = round(time.time() - t0, 1)
            print(json.dumps(rec), file=open(out, 'a'), flush=True)
            open(f'{wt}/{path}', 'w').write(src)
        sh(f'git -C {wt} checkout -- .')


main()
